"""property id -> (spec, harness group)"""
from . import props_alg, props_alias, props_lin, props_est, props_eig, props_sim, props_tm, props_rand, props_text, props_cli

SPECS = {}
for pid, spec in props_alg.SPECS.items():
    SPECS[pid] = (spec, props_alg.GROUP)
for pid, spec in props_alias.SPECS.items():
    SPECS[pid] = (spec, props_alias.GROUP)
for pid, spec in props_lin.SPECS.items():
    SPECS[pid] = (spec, props_lin.GROUP)
for pid, spec in props_est.SPECS.items():
    SPECS[pid] = (spec, props_est.GROUP)
for pid, spec in props_eig.SPECS.items():
    SPECS[pid] = (spec, props_eig.GROUP)
for pid, spec in props_sim.SPECS.items():
    SPECS[pid] = (spec, props_sim.GROUP)
for pid, spec in props_tm.SPECS.items():
    SPECS[pid] = (spec, props_tm.GROUP)
for pid, spec in props_rand.SPECS.items():
    SPECS[pid] = (spec, props_rand.GROUP)
for pid, spec in props_text.SPECS.items():
    SPECS[pid] = (spec, props_text.GROUP)
for pid, spec in props_cli.SPECS.items():
    SPECS[pid] = (spec, props_cli.GROUP)
# C04's element-access clause also covers the generic traits of Matrix/Vector (harness group lin)
props_alg.SPECS['C04']['extra'] = list(props_alg.SPECS['C04'].get('extra', [])) + [(dict(props_lin.GROUP, replay_prefix='m '), props_lin.gen_datum)]
# ... and scalars obtained through those traits from the Jones matrix itself (J *= s with s a reference into J must equal s*J):
# the Jones rows of the aliasing table, as implementation oracles (x op= alias(x) against x op= copy)
def _jones_alias_rows(g, tier):
    return [c for c in props_alias.gen_C16(g, tier) if c.line.startswith(('al.jonesr', 'al.jonesc', 'al.jones '))]
props_alg.SPECS['C04']['extra'].append((dict(props_alias.GROUP, replay_prefix='al.'), _jones_alias_rows))
# double-only oracles live in their own harness (group dbl), so that they survive a change that breaks the exact-rational instantiation
props_lin.SPECS['C13']['extra'] = list(props_lin.SPECS['C13'].get('extra', [])) + [(props_lin.GROUP_DBL, props_lin.gen_dbl_c13)]
props_lin.SPECS['C14']['extra'] = list(props_lin.SPECS['C14'].get('extra', [])) + [(props_lin.GROUP_DBL, props_lin.gen_dbl_c14)]
props_alg.SPECS['C15']['extra'] = list(props_alg.SPECS['C15'].get('extra', [])) + [(props_lin.GROUP_DBL, props_alg.gen_dbl_c15)]
# process-wide state that is initialised by the first request (static tables): every property that uses Pauli::matrix also runs
# fresh harness processes whose first requests come in another order than 0, 1, 2, 3
def _pauli_order(first):
    def gen(g, tier):
        import itertools
        perms = [p for p in itertools.permutations(range(4)) if p[0] == first]
        g.shuffle(perms)
        b0 = {3: 'cir', 2: 'ell', 1: 'lin'}[first]          # the basis in force at the first request of the process
        cs = [props_alg.Case('o.c15.pauliorder %s %d %d %d %d' % (((b0 if k == 0 else g.choice(['lin', 'cir', 'ell'])),) + tuple(p)), 'orc', 'pauli-matrices-first-request-%d-%s' % (first, b0)) for k, p in enumerate(perms[:3])]
        return cs
    return gen
for _pid in ('C15', 'C03'):
    for _first in (3, 2, 1):
        props_alg.SPECS[_pid]['extra'] = list(props_alg.SPECS[_pid].get('extra', [])) + [(dict(props_alg.GROUP, replay_prefix=('o.c15.pauliorder',)), _pauli_order(_first))]
props_alias.SPECS['C16']['extra'] = list(props_alias.SPECS['C16'].get('extra', [])) + [(props_alias.GROUP_DBL, props_alias.gen_dbl_c16)]
# C13's scalar-multiplication clause with the scalar taken by reference from the matrix / vector itself: the Vector and Matrix
# rows of the aliasing table as implementation oracles under C13 too
def _linear_alias_rows(g, tier):
    return [c for c in props_alias.gen_C16(g, tier) if c.line.startswith(('al.vec ', 'al.mat ', 'al.vecvec', 'al.matmat', 'al.stokes'))]
props_lin.SPECS['C13']['extra'] = list(props_lin.SPECS['C13'].get('extra', [])) + [(dict(props_alias.GROUP, replay_prefix='al.'), _linear_alias_rows)]
props_sim.SPECS['C06']['extra'] = list(props_sim.SPECS['C06'].get('extra', [])) + [(props_sim.GROUP_FAST, props_sim.gen_fast_c06)]
for _pid, _specs in (('C13', props_lin.SPECS), ('C03', props_alg.SPECS), ('C11', props_est.SPECS)):
    _specs[_pid]['extra'] = list(_specs[_pid].get('extra', [])) + [(props_lin.GROUP_DBL, props_lin.gen_dbl_inttypes)]
props_sim.SPECS['C07']['extra'] = list(props_sim.SPECS['C07'].get('extra', [])) + [(props_sim.GROUP_FAST, props_sim.gen_fast_c07)]
props_est.SPECS['C12']['extra'] = list(props_est.SPECS['C12'].get('extra', [])) + [(props_lin.GROUP_DBL, props_lin.gen_dbl_c12)]
props_est.SPECS['C11']['extra'] = list(props_est.SPECS['C11'].get('extra', [])) + [(props_lin.GROUP_DBL, props_lin.gen_dbl_c11)]
props_sim.SPECS['C08']['extra'] = list(props_sim.SPECS['C08'].get('extra', [])) + [(props_sim.GROUP_REAL, props_sim.gen_real_c08)]
# the caller's instruction-set flags: the header templates compiled for a target with fused multiply-add (only when this
# machine has it); the dyadic operands make every operation exact, fused or not
def _has_fma():
    try: return any(' fma ' in l + ' ' for l in open('/proc/cpuinfo') if l.startswith('flags'))
    except Exception: return False
if _has_fma():
    props_alg.SPECS['C15']['extra'] = list(props_alg.SPECS['C15'].get('extra', [])) + [(dict(props_lin.GROUP_DBL, name='dblfma', flags=('-mfma', '-O2'), replay_prefix=('o.c15.dyadic',)), props_alg.gen_dbl_c15)]
NOT_CLAIMED = {}
