"""property id -> (spec, harness group)"""
from . import props_alg

SPECS = {}
for pid, spec in props_alg.SPECS.items():
    SPECS[pid] = (spec, props_alg.GROUP)
NOT_CLAIMED = {}
