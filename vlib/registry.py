"""property id -> (spec, harness group)"""
from . import props_alg, props_alias

SPECS = {}
for pid, spec in props_alg.SPECS.items():
    SPECS[pid] = (spec, props_alg.GROUP)
for pid, spec in props_alias.SPECS.items():
    SPECS[pid] = (spec, props_alias.GROUP)
NOT_CLAIMED = {}
