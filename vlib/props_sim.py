"""Simulator properties through harness group "sim" (double; scripted random sources): C01 C06 C07 C08 C05."""
import math, struct
from .core import dhex, hexd
from .runner import Case
from .props_eig import QUADS, flags_then_small
from .props_mixed import f32

GROUP = dict(name='sim', sources=['h_sim.cpp'],
             repo_sources=['mode.cpp', 'sample.cpp', 'superposed.cpp', 'composite.cpp', 'disjoint.cpp', 'coherent.cpp', 'covariant.cpp',
                           'square_modulated_mode.cpp', 'util/Pauli.C', 'util/random.C', 'util/true_math.c'],
             driver='sim', libs=())


def hexes(xs): return ' '.join(dhex(x) for x in xs)


def accepted(s):
    """the validity test of the command-line program: abs_vect() <= I, evaluated as the code does"""
    q = (s[1] * s[1] + s[2] * s[2]) + s[3] * s[3]
    return math.sqrt(q) <= s[0]


def stokes_family(g, n):
    """valid mean Stokes vectors: many decades of I, the whole sphere, |p| = I at many rounding patterns"""
    res = [('unpolarised', [1.0, 0.0, 0.0, 0.0]), ('zero', [0.0, 0.0, 0.0, 0.0]), ('full-axis', [1.0, 1.0, 0.0, 0.0]),
           ('full-0.6-0.8', [1.0, 0.6, 0.0, 0.8]), ('tiny', [1e-150, 0.0, 3e-151, 0.0]), ('huge', [1e150, 5e149, 0.0, -5e149])]
    for _ in range(n):
        I = 10 ** g.r.uniform(-15, 15) if g.random() < 0.5 else g.r.uniform(0.1, 10)
        f = g.choice([0.0, 0.3, 0.9, 0.999999, 1 - 1e-12, g.random()])
        th, ph = g.r.uniform(0, math.pi), g.r.uniform(0, 2 * math.pi)
        res.append(('partial', [I, I * f * math.sin(th) * math.cos(ph), I * f * math.sin(th) * math.sin(ph), I * f * math.cos(th)]))
        N, a, b, c = g.choice(QUADS)
        sg = [g.choice([1, -1]) for _ in range(3)]
        k = g.choice([0.1, 0.3, 1.0 / 3, 0.7, 1.1, math.pi, 1e-5 / 3, 1e7 / 7, g.r.uniform(0.1, 10)])
        for cand in ([k, k * sg[0] * a / N, k * sg[1] * b / N, k * sg[2] * c / N], [k * N, k * sg[0] * a, k * sg[1] * b, k * sg[2] * c],
                     [1.0, sg[0] * a / N, sg[1] * b / N, sg[2] * c / N]):
            if accepted(cand): res.append(('boundary', cand))
    return [(t, s) for t, s in res if accepted(s)]


NODES = [0.0, 1.0, -1.0, 2.0, -2.0]


def gen_C01(g, tier):
    n = 40 if tier == 'quick' else 1200
    cs = []
    for tag, s in stokes_family(g, n):
        det = s[0] * s[0] - s[1] * s[1] - s[2] * s[2] - s[3] * s[3]
        t = tag + ('-detneg' if det < 0 else ('-detzero' if det == 0 and s[0] > 0 and tag == 'boundary' else ''))
        cs.append(Case('md.polarizer %s' % hexes(s), 'cmp', t))
        cs.append(Case('md.theory %s' % hexes(s), 'cmp', t))
        dev = [g.choice(NODES) for _ in range(4)] if g.random() < 0.5 else [f32(g.r.gauss(0, 1)) for _ in range(4)]
        cs.append(Case('md.field %s %s' % (hexes(s), hexes(dev)), 'cmp', t))
        cs.append(Case('o.c01.moments %s' % hexes(s), 'orc', t, check=flags_then_small(1, 1e-12)))
    return cs


C01 = dict(
    id='C01', module='EpsicProofs.Props.C01', gen=gen_C01,
    rule='valid mean Stokes vectors (|p| <= I as the program evaluates it): unpolarised, zero, 30 decades of I, the whole '
         'sphere at polarisation fractions 0..1-1e-12, and the boundary |p| = I from Pythagorean quadruples times non-dyadic '
         'scalings (tags -detneg / -detzero record how the computed determinant rounded); polarizer, one field instance from '
         'scripted deviates and the predicted moments are compared bit for bit with the model at Float; the exact Gaussian '
         'ensemble moments of the implementation are evaluated by 625-node product cubature through the deviate source',
    trusted=['glibc sqrt', 'cubature exact for the degree-4 polynomials involved', 'g++ evaluates the two gasdev() arguments right to left (observed)'],
    assumptions=['the Gaussian law satisfies the moment structure GaussE (standard mathematics)'],
    partial='"to rounding"; Gaussian law => GaussE is trusted',
)


# ------------------------------------------------------------------------------------------ C06

def finite_all(vals, line):
    t = line.split()
    if not t or t[0] != 'ok': return 'error result ' + line[:80]
    for i, h in enumerate(t[1:]):
        if len(h) == 16 and not math.isfinite(hexd(h)): return 'non-finite predicted statistic at output %d' % i
    return None


def mode_kinds(g):
    beta = g.choice([0.3, 0.5, 1.0, 2.0])
    w = g.randint(2, 6)
    return [('plain', 'plain'), ('lognormal', 'lognormal %s' % dhex(beta)), ('boxcar', 'boxcar %s %d' % (dhex(beta), w)),
            ('square', None)]


def gen_C06(g, tier):
    cs = []
    sizes = list(range(1, 41)) + [63, 64, 65, 255, 256, 257, 1000, 4095, 4096, 65535, 65536, 65537, 100000]
    if tier == 'quick': sizes = list(range(1, 13)) + [31, 32, 33, 64, 257, 4096, 65535, 65536, 65537]
    for n in sizes:
        k = g.randint(1, min(n + 2, 12))
        xs = [g.r.uniform(0, 1) for _ in range(k)]
        cv = g.choice([xs[0], g.r.uniform(0, 2)])
        cs.append(Case('sm.cov %d %s %d %s' % (n, dhex(cv), k, hexes(xs)), 'cmp', 'cov-n%s' % ('big' if n > 4096 else 'small'), check=finite_all))
        if n <= 64:
            for lag in range(0, 4):
                cs.append(Case('sm.xcov %d %d %s %d %s' % (n, lag, dhex(cv), k, hexes(xs)), 'cmp', 'xcov-lag%d' % lag, check=finite_all))
            cs.append(Case('sm.single %d %s %d %s' % (n, dhex(cv), k, hexes(xs)), 'cmp', 'single-stub'))
    for _ in range(6 if tier == 'quick' else 80):
        n = g.randint(1, 20)
        s = [1.0, g.r.uniform(-0.5, 0.5), g.r.uniform(-0.5, 0.5), g.r.uniform(-0.5, 0.5)]
        for tag, kind in mode_kinds(g):
            if kind is None: kind = 'square %s %d %d' % (dhex(g.choice([0.3, 1.0])), g.randint(2, 6), n)
            for lag in (0, 1, 2):
                cs.append(Case('o.c06.sums %d %d %s %s' % (n, lag, hexes(s), kind), 'orc', 'sums-' + tag, check=flags_then_small(2, 1e-12)))
    return cs


C06 = dict(
    id='C06', module='EpsicProofs.Props.C06', gen=gen_C06,
    rule='stub modes with arbitrary per-lag (cross-)covariance sequences: sample sizes 1..40, 2^k-1, 2^k, 2^k+1 up to 65537 and '
         '100000, sample lags 0..3 (n <= 64), compared bit for bit with the model at Float (which carries the machine-integer '
         'arithmetic of the source); every real mode type (plain, log-normal, boxcar, rectangular) through the brute-force '
         'double-sum oracle, the lag-0 = covariance oracle and the instance-count oracle',
    trusted=['IEEE double arithmetic identical in harness and model'],
    assumptions=['theorems are over exact fields with naturals for counts; the unsigned/int ranges are explicit hypotheses'],
    partial='floating-point rounding of the sums',
)


# ------------------------------------------------------------------------------------------ C07

def small_all(tol):
    def chk(vals, line):
        t = line.split()
        if not t or t[0] != 'ok': return 'error result ' + line[:80]
        for i, h in enumerate(t[1:]):
            if len(h) != 16: continue
            x = hexd(h)
            if not (x <= tol): return 'residual %g exceeds %g at output %d' % (x, tol, i)
        return None
    return chk


def gen_C07(g, tier):
    n = 25 if tier == 'quick' else 600
    cs = []
    betas = [0.1, 0.3, 0.5, 1.0, 2.0, 5.0]
    for _ in range(n):
        b = g.choice(betas) if g.random() < 0.6 else g.r.uniform(0.01, 4)
        w = g.randint(1, 8); ns = g.randint(1, 12); m = g.randint(1, 3 * w + 4)
        devs = [f32(g.r.gauss(0, 1)) for _ in range(w + m + 2)]
        s = [g.r.uniform(0.5, 3), g.r.uniform(-0.3, 0.3), g.r.uniform(-0.3, 0.3), g.r.uniform(-0.3, 0.3)]
        cs.append(Case('mod.seq lognormal %s %d %s' % (dhex(b), m, hexes(devs[:m])), 'cmp', 'sequence-lognormal'))
        cs.append(Case('mod.seq boxcar %s %d %d %s' % (dhex(b), w, m, hexes(devs[:w - 1 + m])), 'cmp', 'sequence-boxcar'))
        cs.append(Case('mod.seq square %s %d %d %d %s' % (dhex(b), w, ns, m, hexes(devs[:m])), 'cmp', 'sequence-square'))
        cs.append(Case('mod.stats %s lognormal %s %d' % (hexes(s), dhex(b), 3), 'cmp', 'stats-lognormal'))
        cs.append(Case('mod.stats %s boxcar %s %d %d' % (hexes(s), dhex(b), w, w + 2), 'cmp', 'stats-boxcar'))
        cs.append(Case('mod.stats %s square %s %d %d %d' % (hexes(s), dhex(b), w, ns, w + 2), 'cmp', 'stats-square'))
        cs.append(Case('mod.transform %s' % hexes([g.r.uniform(0, 4)] + [g.r.uniform(-2, 2) for _ in range(4)]), 'cmp', 'transform', check=last_small(1e-14)))
        cs.append(Case('o.c07.lognormal %s' % dhex(b), 'orc', 'lognormal-moments', check=small_all(1e-5)))
    for w in range(1, 13 if tier != 'quick' else 8):
        cs.append(Case('o.c07.boxcar %d %s' % (w, hexes([g.r.uniform(0.5, 2), g.r.uniform(0.01, 2)])), 'orc', 'boxcar-impulse-response', check=small_all(1e-12)))
        for ns in range(1, 13 if tier != 'quick' else 8):
            mis = ns < w and w % ns != 0
            cs.append(Case('o.c07.square %d %d #%s' % (w, ns, 'within-misaligned' if mis else 'within-aligned'), 'orc',
                           'hold-within-' + ('misaligned' if mis else 'aligned'), check=small_all(1e-12)))
            cs.append(Case('o.c07.squarelag %d %d 0 #%s' % (w, ns, 'lag0-misaligned' if mis else 'lag0-aligned'), 'orc',
                           'hold-lag0-' + ('misaligned' if mis else 'aligned'), check=small_all(1e-12)))
            uniform = (w == 1) or (ns > w and math.gcd(w, ns) == 1)
            for sl in (1, 2):
                cs.append(Case('o.c07.squarelag %d %d %d #%s' % (w, ns, sl, 'lagged-uniform-phase' if uniform else 'lagged-restricted-phase'), 'orc',
                               'hold-lagged-' + ('uniform' if uniform else 'restricted'), check=small_all(1e-12)))
    return cs


def last_small(tol):
    def chk(vals, line):
        t = line.split()
        if not t or t[0] != 'ok': return 'error result ' + line[:80]
        x = hexd(t[-1])
        return None if x <= tol else 'Stokes parameters of the modulated field differ from factor * Stokes by %g (relative)' % x
    return chk


C07 = dict(
    id='C07', module='EpsicProofs.Props.C07', gen=gen_C07,
    rule='log-normal, boxcar-smoothed and rectangular (sample-and-hold) modulation: factor sequences from scripted deviates and '
         'all reported statistics compared bit for bit with the model at Float (incl. the cross-correlation table of the '
         'rectangular model); exact ensemble moments on the implementation: impulse-response enumeration of the real boxcar '
         'filter (widths 1..12), exhaustive phase-cycle enumeration of the sample-and-hold filter for widths and sample sizes '
         '1..12 (within a sample, lag 0, sample lags 1 and 2), 16-point Gauss-Hermite quadrature for the log-normal',
    trusted=['glibc exp/log/sqrt shared by harness and model', 'Gauss-Hermite nodes/weights (oracle only)'],
    assumptions=['independent draws of the underlying factor source'],
    partial='rectangular model when the impulse width is not aligned with the sample size, and between samples unless the phase is '
            'uniformly visited (known findings); floating-point rounding',
)


# ------------------------------------------------------------------------------------------ C08

def corr_range(b0, b1):
    s0 = math.sqrt(math.log(b0 * b0 + 1.0)); s1 = math.sqrt(math.log(b1 * b1 + 1.0))
    be0 = math.sqrt(math.exp(s0 * s0) - 1.0); be1 = math.sqrt(math.exp(s1 * s1) - 1.0)
    den = be0 * be1
    return (math.exp(-s0 * s1) - 1.0) / den, (math.exp(s0 * s1) - 1.0) / den


def gen_C08(g, tier):
    cs = []
    L = 10 if tier == 'quick' else 14
    import itertools
    for n in range(0, L + 1):
        for pat in itertools.product('AB', repeat=n):
            if n == 0: continue
            cs.append(Case('o.c08.pairing %s' % ''.join(pat), 'orc', 'pairing-exhaustive', nontrivial=(n > 1)))
    for _ in range(3 if tier == 'quick' else 30):
        n = g.randint(1000, 10000)
        # long random interleavings with long leads of one consumer over the other
        pat = []
        while len(pat) < n:
            pat += [g.choice('AB')] * g.randint(1, 12)
        cs.append(Case('o.c08.pairing %s' % ''.join(pat[:n]), 'orc', 'pairing-long'))
    betas = [0.1, 0.3, 0.5, 1.0, 2.0]
    for b0 in betas:
        for b1 in betas:
            lo, hi = corr_range(b0, b1)
            rhos = [('inside', lo + (hi - lo) * f) for f in (0.1, 0.5, 0.9)] + [('zero', 0.0), ('edge-max', hi), ('edge-min', lo),
                    ('edge-max-1ulp', math.nextafter(hi, 0.0)), ('edge-min-1ulp', math.nextafter(lo, 0.0)),
                    ('outside', math.nextafter(hi, 2.0)), ('outside', math.nextafter(lo, -2.0)), ('outside', hi + 0.05), ('outside', lo - 0.05)]
            if tier == 'quick' and (b0, b1) not in ((0.5, 1.0), (1.0, 1.0), (0.3, 2.0), (2.0, 2.0), (0.1, 0.1)):
                rhos = [r for r in rhos if r[0].startswith('edge')][:2]
            for tag, rho in rhos:
                m = g.randint(1, 6)
                pat = ''.join(g.choice('AB') for _ in range(m))
                devs = [f32(g.r.gauss(0, 1)) for _ in range(2 * m)]
                cs.append(Case('cov.seq %s %s %s' % (hexes([rho, b0, b1]), pat, hexes(devs)), 'cmp', 'sequence-' + tag, check=(None if tag == 'outside' else finite_all)))
                if tag != 'outside':
                    cs.append(Case('o.c08.moments %s' % hexes([rho, b0, b1]), 'orc', 'moments-' + tag, check=flags_then_small(1, 1e-5)))
                else:
                    cs.append(Case('cov.seq %s %s %s' % (hexes([rho, b0, b1]), 'A', hexes(devs[:2])), 'orc', 'rejected-outside', check=must_reject))
    return cs


def must_reject(vals, line):
    return None if line.startswith('err throw:bivariate_lognormal_modes::build') else 'a request outside the admissible range was not rejected: ' + line[:80]


C08 = dict(
    id='C08', module='EpsicProofs.Props.C08', gen=gen_C08,
    rule='pairing: ALL interleavings of the two consumers up to total length 10 (thorough: 14) on the real coordinator with a '
         'counting draw source, plus random interleavings of length 1000..10000 with leads up to 12; (correlation, index A, '
         'index B) grid incl. both ends of the admissible interval, one ulp inside and outside; factor sequences compared bit '
         'for bit with the model at Float; moments of the delivered pairs by 16x16 Gauss-Hermite quadrature through the deviate source',
    exhaustive=False,
    trusted=['glibc exp/log/sqrt shared by harness and model', 'Gauss-Hermite quadrature (oracle only)'],
    assumptions=['bivariate Gaussian law of the two deviates'],
    partial='floating-point rounding; moments are evaluated by quadrature on the implementation, proved for the exact matrix root',
)

SPECS = {'C01': C01, 'C06': C06, 'C07': C07, 'C08': C08}
