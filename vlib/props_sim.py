"""Simulator properties through harness group "sim" (double; scripted random sources): C01 C06 C07 C08 C05."""
import math, struct
from .core import dhex, hexd
from .runner import Case
from .props_eig import QUADS, flags_then_small
from .props_est import small_hex_check
from .props_mixed import f32

GROUP = dict(name='sim', sources=['h_sim.cpp'],
             repo_sources=['mode.cpp', 'sample.cpp', 'superposed.cpp', 'composite.cpp', 'disjoint.cpp', 'coherent.cpp', 'covariant.cpp',
                           'square_modulated_mode.cpp', 'util/Pauli.C', 'util/random.C', 'util/true_math.c'],
             driver='sim', libs=(), thread_mode=True)


# the sample-mean workers at sizes whose double loops take billions of iterations: optimised build, no sanitizers, thorough tier only
GROUP_FAST = dict(name='simfast', sources=['h_simfast.cpp'], repo_sources=['mode.cpp', 'sample.cpp', 'square_modulated_mode.cpp', 'util/Pauli.C', 'util/random.C', 'util/true_math.c'],
                  driver=None, libs=(), flags=('-O2',), sanitize=False, replay_prefix=('o.c06.bign', 'o.c07.bigsquare'))


def gen_fast_c06(g, tier):
    cs = []
    sizes = [1000, 65537] if tier == 'quick' else [1000, 65535, 65536, 65537, 70001]
    for n in sizes:
        cs.append(Case('o.c06.bign %d %d %s' % (n, g.choice([0, 1]), dhex(g.r.uniform(0.2, 3))), 'orc', 'worker-size-%s' % ('big' if n > 4096 else 'moderate'), check=small_hex_check(1e-4)))   # 4e9 terms are summed naively: the sum itself carries about 1e-7
    return cs


def gen_fast_c07(g, tier):
    """the lag-correlation table of the rectangular model against an independent count, up to sample sizes for which the code's
    own n^2 table takes gigabytes (thorough tier, only when the machine has the memory)"""
    cs = []
    pairs = [(4, 6), (16, 40), (257, 1028), (1000, 3000), (96, 1000)]
    if tier != 'quick':
        pairs += [(2048, 8192), (4097, 12291)]
        try:
            avail = [int(l.split()[1]) for l in open('/proc/meminfo') if l.startswith('MemAvailable')][0] // (1024 * 1024)
        except Exception:
            avail = 0
        if avail >= 20: pairs += [(16385, 32770)]        # 8.6 GB for the code's table
    for w, n in pairs:
        cs.append(Case('o.c07.bigsquare %d %d' % (w, n), 'orc', 'rectangular-table-%s' % ('huge' if n > 32768 else 'large'), check=small_hex_check(1e-12)))
    return cs


def hexes(xs): return ' '.join(dhex(x) for x in xs)

# the coordinator on the real BoxMuller generator, shared with other consumers (scripted drand48)
GROUP_REAL = dict(name='simreal', sources=['h_simreal.cpp'], repo_sources=['mode.cpp', 'covariant.cpp', 'util/BoxMuller.C', 'util/Pauli.C', 'util/random.C', 'util/true_math.c'],
                  driver='simreal', libs=(), replay_prefix=('o.c08.shared', 'cov.shared'))


def gen_real_c08(g, tier):
    """joint draws from a generator other consumers also draw from: every interleaving of requests from A, from B and single
    draws by a third party (x) up to length 5 on one configuration, then random long ones"""
    import itertools
    cs = []
    def line(pat, b0, b1, frac, op='o.c08.shared'):
        ls0, ls1 = math.sqrt(math.log(b0 * b0 + 1)), math.sqrt(math.log(b1 * b1 + 1))
        lim = (math.exp(ls0 * ls1) - 1) / (b0 * b1) if frac >= 0 else -(math.exp(-ls0 * ls1) - 1) / (b0 * b1)
        rho = frac * lim
        need = 2 * len(pat)
        us = [g.r.uniform(0.001, 0.999) for _ in range(4 * need + 40)]
        return '%s %s %s %s %s %s' % (op, dhex(rho), dhex(b0), dhex(b1), pat, hexes(us))
    maxlen = 5 if tier == 'quick' else 7
    for n in range(1, maxlen + 1):
        for tup in itertools.product('ABx', repeat=n):
            pat = ''.join(tup)
            if 'A' not in pat and 'B' not in pat: continue
            cs.append(Case(line(pat, 0.8, 1.3, 0.6), 'orc', 'shared-generator-exhaustive-%s' % ('odd-offset' if pat.split('A')[0].split('B')[0].count('x') % 2 else 'even-offset'), check=small_hex_check(1e-9)))
    # the same scenario against the model (stream model composed with the coordinator model), bit for bit
    for n in range(1, (4 if tier == 'quick' else 6) + 1):
        for tup in itertools.product('ABx', repeat=n):
            pat = ''.join(tup)
            if 'A' not in pat and 'B' not in pat: continue
            cs.append(Case(line(pat, 0.5, 2.0, -0.7, op='cov.shared'), 'cmp', 'shared-generator-model-exhaustive'))
    for _ in range(40 if tier == 'quick' else 400):
        pat = ''.join(g.choice('AABBx') for _ in range(g.r.randint(5, 60)))
        if 'A' not in pat and 'B' not in pat: pat += 'B'
        cs.append(Case(line(pat, 10 ** g.r.uniform(-1.5, 0.7), 10 ** g.r.uniform(-1.5, 0.7), g.r.uniform(-0.99, 0.99), op='cov.shared'), 'cmp', 'shared-generator-model-random'))
    for _ in range(60 if tier == 'quick' else 600):
        n = g.r.randint(6, 40)
        pat = ''.join(g.choice('AABBx') for _ in range(n))
        if 'A' not in pat and 'B' not in pat: pat += 'A'
        cs.append(Case(line(pat, 10 ** g.r.uniform(-1.5, 0.7), 10 ** g.r.uniform(-1.5, 0.7), g.r.uniform(-0.95, 0.95)), 'orc', 'shared-generator-random', check=small_hex_check(1e-9)))
    return cs



def accepted(s):
    """the validity test of the command-line program: abs_vect() <= I, evaluated as the code does"""
    q = (s[1] * s[1] + s[2] * s[2]) + s[3] * s[3]
    return math.sqrt(q) <= s[0]


def stokes_family(g, n):
    """valid mean Stokes vectors: many decades of I, the whole sphere, |p| = I at many rounding patterns"""
    res = [('unpolarised', [1.0, 0.0, 0.0, 0.0]), ('zero', [0.0, 0.0, 0.0, 0.0]), ('full-axis', [1.0, 1.0, 0.0, 0.0]),
           ('full-0.6-0.8', [1.0, 0.6, 0.0, 0.8]), ('tiny', [1e-150, 0.0, 3e-151, 0.0]), ('huge', [1e150, 5e149, 0.0, -5e149])]
    for _ in range(n):
        I = 10 ** g.r.uniform(-15, 15) if g.random() < 0.5 else g.r.uniform(0.1, 10)
        f = g.choice([0.0, 0.3, 0.9, 0.999999, 1 - 1e-12, g.random()])
        th, ph = g.r.uniform(0, math.pi), g.r.uniform(0, 2 * math.pi)
        res.append(('partial', [I, I * f * math.sin(th) * math.cos(ph), I * f * math.sin(th) * math.sin(ph), I * f * math.cos(th)]))
        N, a, b, c = g.choice(QUADS)
        sg = [g.choice([1, -1]) for _ in range(3)]
        k = g.choice([0.1, 0.3, 1.0 / 3, 0.7, 1.1, math.pi, 1e-5 / 3, 1e7 / 7, g.r.uniform(0.1, 10)])
        for cand in ([k, k * sg[0] * a / N, k * sg[1] * b / N, k * sg[2] * c / N], [k * N, k * sg[0] * a, k * sg[1] * b, k * sg[2] * c],
                     [1.0, sg[0] * a / N, sg[1] * b / N, sg[2] * c / N]):
            if accepted(cand): res.append(('boundary', cand))
    return [(t, s) for t, s in res if accepted(s)]


NODES = [0.0, 1.0, -1.0, 2.0, -2.0]


def gen_C01(g, tier):
    n = 40 if tier == 'quick' else 1200
    cs = []
    for tag, s in stokes_family(g, n):
        det = s[0] * s[0] - s[1] * s[1] - s[2] * s[2] - s[3] * s[3]
        t = tag + ('-detneg' if det < 0 else ('-detzero' if det == 0 and s[0] > 0 and tag == 'boundary' else ''))
        cs.append(Case('md.polarizer %s' % hexes(s), 'cmp', t))
        cs.append(Case('md.theory %s' % hexes(s), 'cmp', t))
        dev = [g.choice(NODES) for _ in range(4)] if g.random() < 0.5 else [f32(g.r.gauss(0, 1)) for _ in range(4)]
        cs.append(Case('md.field %s %s' % (hexes(s), hexes(dev)), 'cmp', t))
        cs.append(Case('o.c01.moments %s' % hexes(s), 'orc', t, check=flags_then_small(1, 1e-12)))
    # lags far beyond any correlation length, up to the largest unsigned value
    for s_ in mids_for_lags(g)[:4 if tier == 'quick' else 40]:
        for tag, kind in mode_kinds(g):
            if kind is None: kind = 'square %s %d %d' % (dhex(0.5), g.randint(2, 5), g.randint(1, 6))
            cs.append(Case('o.c01.lags %s %s' % (hexes(s_), kind), 'orc', 'lags-up-to-unsigned-max-' + tag, check=small_hex_check(1e-300)))
    # modes that were never configured (unit unpolarised intensity by default), with static storage duration in the caller's
    # translation unit (constructed before main), as a member of such an aggregate, and on the heap
    for sel in (0, 1, 2):
        cs.append(Case('o.c01.moments early %d' % sel, 'orc', 'default-constructed-mode', check=flags_then_small(1, 1e-12)))
    # the process-wide polarization basis is a configuration: the ensemble coherency matrix is convert(S) in every basis
    mids = [s for _, s in stokes_family(g, 4) if 1e-6 < s[0] < 1e6]
    for s in mids[:12 if tier == 'quick' else 200]:
        for b in ('lin', 'cir', 'ell %s %s' % (dhex(g.r.uniform(-1.5, 1.5)), dhex(g.r.uniform(-0.7, 0.7))), 'ell %s %s' % (dhex(0.3), dhex(-0.2))):
            cs.append(Case('o.c01.basis %s %s' % (b, hexes(s)), 'orc', 'basis-' + b.split()[0], check=flags_then_small(1, 1e-12)))
    # histories on one mode object: the same or another vector requested again after the basis changed
    for _ in range(6 if tier == 'quick' else 100):
        k = g.randint(2, 4); steps = []
        s0 = g.choice(mids)
        for _ in range(k):
            b = g.choice(['lin', 'cir', 'ell %s %s' % (dhex(g.r.uniform(-1.5, 1.5)), dhex(g.r.uniform(-0.7, 0.7)))])
            steps.append('%s %s' % (b, hexes(s0 if g.random() < 0.6 else g.choice(mids))))
        cs.append(Case('o.c01.basis seq %d %s' % (k, ' '.join(steps)), 'orc', 'basis-history', check=flags_then_small(1, 1e-12)))
    # the same coherency matrix requested through different Stokes vectors: after a change between the named bases, the vector
    # whose components are the cyclic permutation of the previous one describes the same state
    for _ in range(6 if tier == 'quick' else 100):
        s0 = g.choice(mids); I, a, b, c = s0
        rot1, rot2 = [I, b, c, a], [I, c, a, b]
        for seq in ((('lin', s0), ('cir', rot1)), (('lin', s0), ('cir', rot2)), (('cir', s0), ('lin', rot1)), (('cir', s0), ('lin', rot2)),
                    (('lin', s0), ('cir', rot1), ('lin', s0)), (('lin', s0), ('cir', rot2), ('lin', rot1))):
            cs.append(Case('o.c01.basis seq %d %s' % (len(seq), ' '.join('%s %s' % (bb, hexes(v)) for bb, v in seq)), 'orc', 'basis-history-same-state', check=flags_then_small(1, 1e-12)))
    return cs


C01 = dict(
    id='C01', module='EpsicProofs.Props.C01', gen=gen_C01,
    rule='valid mean Stokes vectors (|p| <= I as the program evaluates it): unpolarised, zero, 30 decades of I, the whole '
         'sphere at polarisation fractions 0..1-1e-12, and the boundary |p| = I from Pythagorean quadruples times non-dyadic '
         'scalings (tags -detneg / -detzero record how the computed determinant rounded); polarizer, one field instance from '
         'scripted deviates and the predicted moments are compared bit for bit with the model at Float; the exact Gaussian '
         'ensemble moments of the implementation are evaluated by 625-node product cubature through the deviate source',
    trusted=['glibc sqrt', 'cubature exact for the degree-4 polynomials involved', 'g++ evaluates the two gasdev() arguments right to left (observed)'],
    assumptions=['the Gaussian law satisfies the moment structure GaussE (standard mathematics)'],
    partial='"to rounding"; Gaussian law => GaussE is trusted',
)


# ------------------------------------------------------------------------------------------ C06

def finite_all(vals, line):
    t = line.split()
    if not t or t[0] != 'ok': return 'error result ' + line[:80]
    for i, h in enumerate(t[1:]):
        if len(h) == 16 and not math.isfinite(hexd(h)): return 'non-finite predicted statistic at output %d' % i
    return None


def small_hex_list(n):
    def chk(vals, line):
        t = line.split()
        if not t or t[0] != 'ok': return 'error result ' + line[:100]
        names = ['samples whose value differs from the mean of identical instances', 'samples after which the number of instances drawn is not smooth-1 + n*t']
        for i in range(n):
            if hexd(t[1 + i]) != 0.0: return '%g %s' % (hexd(t[1 + i]), names[i])
        return None
    return chk


def mode_kinds(g):
    beta = g.choice([0.3, 0.5, 1.0, 2.0])
    w = g.randint(2, 6)
    return [('plain', 'plain'), ('lognormal', 'lognormal %s' % dhex(beta)), ('boxcar', 'boxcar %s %d' % (dhex(beta), w)),
            ('square', None)]


def mids_for_lags(g):
    return [s for _, s in stokes_family(g, 4) if 1e-6 < s[0] < 1e6]


def gen_C06(g, tier):
    cs = []
    sizes = list(range(1, 41)) + [63, 64, 65, 255, 256, 257, 1000, 4095, 4096, 65535, 65536, 65537, 100000]
    if tier == 'quick': sizes = list(range(1, 13)) + [31, 32, 33, 64, 257, 4096, 65535, 65536, 65537]
    for n in sizes:
        k = g.randint(1, min(n + 2, 12))
        xs = [g.r.uniform(0, 1) for _ in range(k)]
        cv = g.choice([xs[0], g.r.uniform(0, 2)])
        cs.append(Case('sm.cov %d %s %d %s' % (n, dhex(cv), k, hexes(xs)), 'cmp', 'cov-n%s' % ('big' if n > 4096 else 'small'), check=finite_all))
        if n <= 64:
            for lag in range(0, 4):
                cs.append(Case('sm.xcov %d %d %s %d %s' % (n, lag, dhex(cv), k, hexes(xs)), 'cmp', 'xcov-lag%d' % lag, check=finite_all))
            cs.append(Case('sm.single %d %s %d %s' % (n, dhex(cv), k, hexes(xs)), 'cmp', 'single-stub'))
            if n <= 24:
                # lag sequences with exact zeros inside their support (interleaved independent streams, a single non-zero lag)
                for gx in ([0.0 if i % 2 == 1 else x for i, x in enumerate(xs)], [x if i == len(xs) - 1 else 0.0 for i, x in enumerate(xs)],
                           [0.0 if i % 3 != 0 else x for i, x in enumerate(xs)], [0.0] + list(xs[1:])):
                    for lag in (0, 1, 2):
                        cs.append(Case('sm.xcov %d %d %s %d %s' % (n, lag, dhex(cv), k, hexes(gx)), 'cmp', 'xcov-gapped-sequence', check=finite_all))
                        cs.append(Case('o.c06.worker %d %d %d %s %d %s' % (n, n, lag, dhex(cv), k, hexes(gx)), 'orc', 'worker-gapped-sequence', check=small_hex_check(1e-12)))
            if n <= 40:
                for m in (n, n + 3, max(1, n - 1), 1, 2 * n + 1):
                    cs.append(Case('o.c06.worker %d %d %d %s %d %s' % (n, m, g.randint(0, 3), dhex(cv), k, hexes(xs)), 'orc', 'worker-from-object-with-other-size', check=small_hex_check(1e-12)))
    # user classes derived from every concrete mode class, reporting an arbitrary covariance sequence
    for kind in range(6):
        for _ in range(2 if tier == 'quick' else 40):
            n = g.randint(1, 9); k = g.randint(1, 2 * n + 2); cv = g.r.uniform(0.5, 3); xs = [cv] + [g.r.uniform(-1, 1) * cv for _ in range(k - 1)]
            cs.append(Case('o.c06.derived %d %d %d %s %d %s' % (kind, n, g.randint(0, 2), dhex(cv), k, hexes(xs)), 'orc', 'worker-on-user-class-derived-from-library-mode', check=small_hex_check(1e-12)))
    # one sample object over one rectangular-modulated mode, re-queried after changes of sample size and of the mode's statistics
    for _ in range(12 if tier == 'quick' else 300):
        w = g.randint(2, 9); n0 = g.randint(1, 10); steps = g.randint(2, 6)
        toks = []
        for _s in range(steps):
            mut = g.choice([0, 1, 1, 1, 2])
            toks += [str(g.randint(1, 12)), str(g.randint(0, 2)), str(mut)] + ([dhex(g.r.uniform(0.2, 2.0))] if mut == 2 else [])
        S = g.choice(stokes_family(g, 3))[1]
        cs.append(Case('o.c06.rehistory %s %s %d %d %d %s' % (hexes(S), dhex(g.r.uniform(0.3, 1.5)), w, n0, steps, ' '.join(toks)), 'orc', 'single-sample-requeried-after-mode-changes', check=small_hex_check(1e-12)))
    for smooth in (1, 2, 3, 4, 7):
        for ns in (1, 2, 5):
            cs.append(Case('o.c06.boxcarsample %d %d %d' % (smooth, ns, smooth + 3), 'orc', 'boxcar-sample', check=small_hex_list(2)))
    for _ in range(6 if tier == 'quick' else 80):
        n = g.randint(1, 20)
        s = [1.0, g.r.uniform(-0.5, 0.5), g.r.uniform(-0.5, 0.5), g.r.uniform(-0.5, 0.5)]
        for tag, kind in mode_kinds(g):
            if kind is None: kind = 'square %s %d %d' % (dhex(g.choice([0.3, 1.0])), g.randint(2, 6), n)
            for lag in (0, 1, 2):
                cs.append(Case('o.c06.sums %d %d %s %s' % (n, lag, hexes(s), kind), 'orc', 'sums-' + tag, check=flags_then_small(2, 1e-12)))
    return cs


C06 = dict(
    id='C06', module='EpsicProofs.Props.C06', gen=gen_C06,
    rule='stub modes with arbitrary per-lag (cross-)covariance sequences: sample sizes 1..40, 2^k-1, 2^k, 2^k+1 up to 65537 and '
         '100000, sample lags 0..3 (n <= 64), compared bit for bit with the model at Float (which carries the machine-integer '
         'arithmetic of the source); every real mode type (plain, log-normal, boxcar, rectangular) through the brute-force '
         'double-sum oracle, the lag-0 = covariance oracle and the instance-count oracle',
    trusted=['IEEE double arithmetic identical in harness and model'],
    assumptions=['theorems are over exact fields with naturals for counts; the unsigned/int ranges are explicit hypotheses'],
    partial='floating-point rounding of the sums',
)


# ------------------------------------------------------------------------------------------ C07

def small_all(tol):
    def chk(vals, line):
        t = line.split()
        if not t or t[0] != 'ok': return 'error result ' + line[:80]
        for i, h in enumerate(t[1:]):
            if len(h) != 16: continue
            x = hexd(h)
            if not (x <= tol): return 'residual %g exceeds %g at output %d' % (x, tol, i)
        return None
    return chk


def gen_C07(g, tier):
    n = 25 if tier == 'quick' else 600
    cs = []
    betas = [0.1, 0.3, 0.5, 1.0, 2.0, 5.0]
    for _ in range(n):
        b = g.choice(betas) if g.random() < 0.6 else g.r.uniform(0.01, 4)
        w = g.randint(1, 8); ns = g.randint(1, 12); m = g.randint(1, 3 * w + 4)
        devs = [f32(g.r.gauss(0, 1)) for _ in range(w + m + 2)]
        s = [g.r.uniform(0.5, 3), g.r.uniform(-0.3, 0.3), g.r.uniform(-0.3, 0.3), g.r.uniform(-0.3, 0.3)]
        cs.append(Case('mod.seq lognormal %s %d %s' % (dhex(b), m, hexes(devs[:m])), 'cmp', 'sequence-lognormal'))
        cs.append(Case('mod.seq boxcar %s %d %d %s' % (dhex(b), w, m, hexes(devs[:w - 1 + m])), 'cmp', 'sequence-boxcar'))
        cs.append(Case('mod.seq square %s %d %d %d %s' % (dhex(b), w, ns, m, hexes(devs[:m])), 'cmp', 'sequence-square'))
        cs.append(Case('mod.stats %s lognormal %s %d' % (hexes(s), dhex(b), 3), 'cmp', 'stats-lognormal'))
        cs.append(Case('mod.stats %s boxcar %s %d %d' % (hexes(s), dhex(b), w, w + 2), 'cmp', 'stats-boxcar'))
        cs.append(Case('mod.stats %s square %s %d %d %d' % (hexes(s), dhex(b), w, ns, w + 2), 'cmp', 'stats-square'))
        cs.append(Case('mod.transform %s' % hexes([g.r.uniform(0, 4)] + [g.r.uniform(-2, 2) for _ in range(4)]), 'cmp', 'transform', check=last_small(1e-14)))
        cs.append(Case('o.c07.lognormal %s' % dhex(b), 'orc', 'lognormal-moments', check=small_all(1e-5)))
    for w in range(1, 13 if tier != 'quick' else 8):
        cs.append(Case('o.c07.boxcar %d %s' % (w, hexes([g.r.uniform(0.5, 2), g.r.uniform(0.01, 2)])), 'orc', 'boxcar-impulse-response', check=small_all(1e-12)))
        for ns in range(1, 13 if tier != 'quick' else 8):
            mis = ns < w and w % ns != 0
            cs.append(Case('o.c07.square %d %d #%s' % (w, ns, 'within-misaligned' if mis else 'within-aligned'), 'orc',
                           'hold-within-' + ('misaligned' if mis else 'aligned'), check=small_all(1e-12)))
            cs.append(Case('o.c07.squarelag %d %d 0 #%s' % (w, ns, 'lag0-misaligned' if mis else 'lag0-aligned'), 'orc',
                           'hold-lag0-' + ('misaligned' if mis else 'aligned'), check=small_all(1e-12)))
            uniform = (w == 1) or (ns > w and math.gcd(w, ns) == 1)
            for sl in (1, 2):
                cs.append(Case('o.c07.squarelag %d %d %d #%s' % (w, ns, sl, 'lagged-uniform-phase' if uniform else 'lagged-restricted-phase'), 'orc',
                               'hold-lagged-' + ('uniform' if uniform else 'restricted'), check=small_all(1e-12)))
    # widths and sample sizes around powers of two, well beyond the small grid above
    for w in ((63, 64, 65) if tier == 'quick' else (63, 64, 65, 127, 129, 255, 256, 257)):
        cs.append(Case('o.c07.boxcar %d %s' % (w, hexes([g.r.uniform(0.5, 2), g.r.uniform(0.01, 2)])), 'orc', 'boxcar-impulse-response-wide', check=small_all(1e-11)))
    for w, ns in ((64, 256), (256, 64), (1, 300), (255, 255), (256, 512), (65, 65 * 7)) + (() if tier == 'quick' else ((1000, 1000),)):   # (cost grows with w * ns^2)
        mis = ns < w and w % ns != 0
        if mis: continue
        cs.append(Case('o.c07.square %d %d #within-aligned' % (w, ns), 'orc', 'hold-within-aligned-large', check=small_all(1e-11)))
        cs.append(Case('o.c07.squarelag %d %d 0 #lag0-aligned' % (w, ns), 'orc', 'hold-lag0-aligned-large', check=small_all(1e-11)))
    # modulation factors of any mean (the shipped models all have unit mean): exact moments of the generated Stokes parameters
    for _ in range(6 if tier == 'quick' else 120):
        I0 = g.choice([1.0, 2.0, 0.5])
        S = [I0, I0 * g.r.uniform(-0.4, 0.4), I0 * g.r.uniform(-0.4, 0.4), I0 * g.r.uniform(-0.4, 0.4)]
        mu = g.choice([1.0, 2.0, 0.5, 3.0, g.r.uniform(0.2, 4)]); d = g.r.uniform(0.1, 0.9) * mu
        pts = g.choice([[(mu - d, 0.5), (mu + d, 0.5)], [(mu - d, 0.25), (mu, 0.5), (mu + d, 0.25)], [(mu, 1.0)]])
        cs.append(Case('o.c07.modcov %s %d %s' % (hexes(S), len(pts), ' '.join(hexes(x) for x in pts)), 'orc', 'modulated-covariance-any-mean', check=flags_then_small(1, 1e-12)))
    # re-configuration of a live rectangular model for another sample size
    for w in (2, 3, 4, 6):
        for n1, n2 in ((6, 2), (6, 4), (9, 3), (3, 9), (2, 6), (5, 5), (4, 1), (1, 4)):
            cs.append(Case('o.c07.retable %d %d %d' % (w, n1, n2), 'orc', 'rectangular-reconfigured', check=small_hex_check(1e-15)))
    # the inner modulator refuses (throws) exactly when a new impulse is due; the caller recovers and carries on
    for w in (1, 2, 3, 4, 7):
        for first in (1, 2, 3):
            for tries in (1, 2, 3):
                cs.append(Case('o.c07.refusal %d %d %d %d' % (w, first, w * (first + 3) + g.randint(0, w), tries), 'orc', 'inner-modulator-refuses-at-impulse-boundary'))
    # the modulation index changes after the decorating model was built (and, in half of the cases, queried)
    for kind in ('square', 'boxcar', 'plain'):
        for w, n in ((2, 2), (3, 2), (4, 6), (6, 4), (5, 5)):
            for use in (0, 1):
                b1, b2 = g.choice([(1.0, 0.5), (0.5, 1.0), (0.3, 0.7), (2.0, 0.25)])
                cs.append(Case('o.c07.rebeta %s %d %d %s %s %d' % (kind, w, n, dhex(b1), dhex(b2), use), 'orc', 'index-changed-after-decoration', check=small_hex_check(1e-13)))
    return cs


def last_small(tol):
    def chk(vals, line):
        t = line.split()
        if not t or t[0] != 'ok': return 'error result ' + line[:80]
        x = hexd(t[-1])
        return None if x <= tol else 'Stokes parameters of the modulated field differ from factor * Stokes by %g (relative)' % x
    return chk


C07 = dict(
    id='C07', module='EpsicProofs.Props.C07', gen=gen_C07,
    rule='log-normal, boxcar-smoothed and rectangular (sample-and-hold) modulation: factor sequences from scripted deviates and '
         'all reported statistics compared bit for bit with the model at Float (incl. the cross-correlation table of the '
         'rectangular model); exact ensemble moments on the implementation: impulse-response enumeration of the real boxcar '
         'filter (widths 1..12), exhaustive phase-cycle enumeration of the sample-and-hold filter for widths and sample sizes '
         '1..12 (within a sample, lag 0, sample lags 1 and 2), 16-point Gauss-Hermite quadrature for the log-normal',
    trusted=['glibc exp/log/sqrt shared by harness and model', 'Gauss-Hermite nodes/weights (oracle only)'],
    assumptions=['independent draws of the underlying factor source'],
    partial='rectangular model when the impulse width is not aligned with the sample size, and between samples unless the phase is '
            'uniformly visited (known findings); floating-point rounding',
)


# ------------------------------------------------------------------------------------------ C08

def corr_range(b0, b1):
    s0 = math.sqrt(math.log(b0 * b0 + 1.0)); s1 = math.sqrt(math.log(b1 * b1 + 1.0))
    be0 = math.sqrt(math.exp(s0 * s0) - 1.0); be1 = math.sqrt(math.exp(s1 * s1) - 1.0)
    den = be0 * be1
    return (math.exp(-s0 * s1) - 1.0) / den, (math.exp(s0 * s1) - 1.0) / den


def first_zero(vals, line):
    t = line.split()
    if not t or t[0] != 'ok': return 'error result ' + line[:100]
    if hexd(t[1]) != 0.0: return '%g factors (or the acceptance decision) differ from a coordinator configured with the final indices from the start' % hexd(t[1])
    return None


def gen_C08(g, tier):
    cs = []
    L = 10 if tier == 'quick' else 14
    import itertools
    for n in range(0, L + 1):
        for pat in itertools.product('AB', repeat=n):
            if n == 0: continue
            cs.append(Case('o.c08.pairing %s' % ''.join(pat), 'orc', 'pairing-exhaustive', nontrivial=(n > 1)))
    for _ in range(3 if tier == 'quick' else 30):
        n = g.randint(1000, 10000)
        # long random interleavings with long leads of one consumer over the other
        pat = []
        while len(pat) < n:
            pat += [g.choice('AB')] * g.randint(1, 12)
        cs.append(Case('o.c08.pairing %s' % ''.join(pat[:n]), 'orc', 'pairing-long'))
    # neutral calls in the middle of an interleaving in which one mode is ahead
    for _ in range(8 if tier == 'quick' else 200):
        lead = g.randint(1, 6); first = g.choice('AB'); other = 'B' if first == 'A' else 'A'
        pat = first * lead + ''.join(g.choice('AB') for _ in range(g.randint(0, 4))); at = len(pat)
        pat += other * (lead + g.randint(0, 3)) + ''.join(g.choice('AB') for _ in range(g.randint(2, 8)))
        ndraw = max(pat.count('A'), pat.count('B'))
        devs = [f32(g.r.gauss(0, 1)) for _ in range(2 * ndraw + 4)]
        for what in (0, 1, 2, 3):
            cs.append(Case('o.c08.neutral %s %s %s %s %d %d %s' % (dhex(g.choice([0.3, -0.2, 0.0, 0.5])), dhex(g.choice([0.5, 1.0])), dhex(g.choice([0.5, 0.8])), pat, at, what, hexes(devs)),
                           'orc', 'neutral-call-while-one-mode-is-ahead'))
    # one consumer far ahead of the other (queues of tens of thousands of pending factors)
    for lead in ([65537, 200000] if tier == 'quick' else [1000, 65535, 65536, 65537, 70000, 200000, 1048577]):
        for first in 'AB':
            other = 'B' if first == 'A' else 'A'
            cs.append(Case('o.c08.pairing %s' % (first * lead + other * (lead + 3) + first * 5), 'orc', 'pairing-long-lead'))
    # leads that build up in stages: one consumer gets L ahead, the other takes j, the first goes on (the pending queue grows, is
    # partly consumed and grows again), around every power of two of L; and long strongly biased random schedules
    for k in (range(4, 18) if tier == 'quick' else range(1, 21)):
        for L in ((1 << k) - 1, 1 << k, (1 << k) + 1):
            first = g.choice('AB'); other = 'B' if first == 'A' else 'A'
            j = g.choice([1, 2, 3, 100, g.randint(1, max(1, L - 1))]); j = min(j, L)
            runs = ['%s%d' % (first, L), '%s%d' % (other, j), '%s%d' % (first, j + g.randint(1, 3 * L)), '%s%d' % (other, g.randint(1, L)), '%s%d' % (first, g.randint(1, 2 * L)), '%s%d' % (other, 4 * L + j + 10)]
            cs.append(Case('o.c08.pairingrle ' + ' '.join(runs), 'orc', 'pairing-lead-built-in-stages'))
    for _ in range(2 if tier == 'quick' else 12):
        first = g.choice('AB'); other = 'B' if first == 'A' else 'A'; runs = []; total = 0; target = 200000 if tier == 'quick' else 1500000
        while total < target:
            a, b = 1 + int(g.r.expovariate(1 / 6.0)), 1 + int(g.r.expovariate(1 / 4.0)); runs += ['%s%d' % (first, a), '%s%d' % (other, b)]; total += a + b
        cs.append(Case('o.c08.pairingrle ' + ' '.join(runs), 'orc', 'pairing-long-biased-walk'))
    for which in (0, 1):
        for tries in (1, 2, 3):
            for _ in range(2 if tier == 'quick' else 20):
                pat = ''.join(g.choice('AB') for _ in range(g.randint(2, 12)))
                cs.append(Case('o.c08.early %d %d %s' % (which, tries, pat), 'orc', 'request-before-partner-exists'))
    betas = [0.1, 0.3, 0.5, 1.0, 2.0]
    for b0 in betas:
        for b1 in betas:
            lo, hi = corr_range(b0, b1)
            rhos = [('inside', lo + (hi - lo) * f) for f in (0.1, 0.5, 0.9)] + [('zero', 0.0), ('edge-max', hi), ('edge-min', lo),
                    ('edge-max-1ulp', math.nextafter(hi, 0.0)), ('edge-min-1ulp', math.nextafter(lo, 0.0)),
                    ('outside', math.nextafter(hi, 2.0)), ('outside', math.nextafter(lo, -2.0)), ('outside', hi + 0.05), ('outside', lo - 0.05)]
            if tier == 'quick' and (b0, b1) not in ((0.5, 1.0), (1.0, 1.0), (0.3, 2.0), (2.0, 2.0), (0.1, 0.1)):
                rhos = [r for r in rhos if r[0].startswith('edge')][:2]
            for tag, rho in rhos:
                m = g.randint(1, 6)
                pat = ''.join(g.choice('AB') for _ in range(m))
                devs = [f32(g.r.gauss(0, 1)) for _ in range(2 * m)]
                cs.append(Case('cov.seq %s %s %s' % (hexes([rho, b0, b1]), pat, hexes(devs)), 'cmp', 'sequence-' + tag, check=(None if tag == 'outside' else finite_all)))
                if tag != 'outside':
                    cs.append(Case('o.c08.moments %s' % hexes([rho, b0, b1]), 'orc', 'moments-' + tag, check=flags_then_small(1, 1e-5)))
                else:
                    cs.append(Case('cov.seq %s %s %s' % (hexes([rho, b0, b1]), 'A', hexes(devs[:2])), 'orc', 'rejected-outside', check=must_reject))
    # history: indices changed after the first factors were drawn
    for _ in range(10 if tier == 'quick' else 200):
        rho = g.choice([0.0, 0.3, -0.2, 0.5, 0.9, -0.4]); b0 = g.choice([0.5, 1.0])   # equal initial indices: every rho in [-0.5, 1] is admissible
        b = [b0, b0] + [g.choice([0.3, 0.5, 1.0, 2.0]) for _ in range(2)]
        devs = [f32(g.r.gauss(0, 1)) for _ in range(2 * g.randint(1, 4))]
        cs.append(Case('o.c08.rebuild %s %s %s' % (dhex(rho), hexes(b), hexes(devs)), 'orc', 'indices-changed-after-draws', check=first_zero))
    cs.append(Case('o.c08.rebuild %s %s %s' % (dhex(0.9), hexes([1.0, 1.0, 0.1, 10.0]), hexes([0.5, -0.5])), 'orc', 'indices-changed-after-draws', check=first_zero))
    # rejection is persistent: every request on an inadmissible configuration is rejected
    for rho, b0, b1 in ((0.9, 0.2, 2.0), (-0.9, 0.5, 0.3), (0.99, 0.3, 1.0), (-0.7, 1.0, 2.0), (0.95, 0.1, 10.0), (0.5, 1.0, 1.0), (0.0, 0.5, 2.0)):
        cs.append(Case('o.c08.reject %s %s %s' % (dhex(rho), dhex(b0), dhex(b1)), 'orc', 'rejection-persistent', check=first_zero))
    return cs


def must_reject(vals, line):
    return None if line.startswith('err throw:bivariate_lognormal_modes::build') else 'a request outside the admissible range was not rejected: ' + line[:80]


C08 = dict(
    id='C08', module='EpsicProofs.Props.C08', gen=gen_C08,
    rule='pairing: ALL interleavings of the two consumers up to total length 10 (thorough: 14) on the real coordinator with a '
         'counting draw source, plus random interleavings of length 1000..10000 with leads up to 12; (correlation, index A, '
         'index B) grid incl. both ends of the admissible interval, one ulp inside and outside; factor sequences compared bit '
         'for bit with the model at Float; moments of the delivered pairs by 16x16 Gauss-Hermite quadrature through the deviate source; '
         'the coordinator on the real Box-Muller generator shared with a third consumer (group simreal): all interleavings over '
         '{A, B, third party} up to length 5 (thorough: 7) and random long ones against the closed form on a twin generator',
    exhaustive=False,
    trusted=['glibc exp/log/sqrt shared by harness and model', 'Gauss-Hermite quadrature (oracle only)'],
    assumptions=['bivariate Gaussian law of the two deviates'],
    partial='floating-point rounding; moments are evaluated by quadrature on the implementation, proved for the exact matrix root',
)


# ------------------------------------------------------------------------------------------ C05

def c05_small(nvals, tol):
    """one finite flag, then `nvals` residuals (hex doubles) that must be <= tol; anything after is informational"""
    def chk(vals, line):
        t = line.split()
        if not t or t[0] != 'ok': return 'error result ' + line[:120]
        if t[1] != '1': return 'a generated or predicted statistic is not finite'
        for i in range(nvals):
            x = hexd(t[2 + i])
            if not (x <= tol): return 'residual %g exceeds %g at output %d (informational outputs: %s)' % (x, tol, i, ' '.join(t[2 + nvals:]))
        return None
    return chk


def coherent_mod_check(zero_coherence):
    inner = c05_small(2 if zero_coherence else 1, 1e-12)
    def chk(vals, line):
        why = inner(vals, line)
        if why: return why
        if line.split()[-1] != '1': return 'a modulator did not draw exactly one factor per instance'
        return None
    return chk


def counts_check(kind, f, n):
    """the generator draws exactly the instances the prediction assumes"""
    def chk(vals, line):
        t = line.split()
        if not t or t[0] != 'ok': return 'error result ' + line[:120]
        a, b = int(t[1]), int(t[2]); st = [hexd(x) for x in t[3:7]]
        if kind == 'superposed':
            if (a, b) != (n, n): return 'superposed sample of %d drew %d/%d fields' % (n, a, b)
            if st[:3] != [5.0, -3.0, 4.0]: return 'superposed stub sample is %r' % st
        if kind == 'composite':
            nA = int(f * n); nB = n - nA
            # I = (a' + 4 b')/n, Q = (a' - 4 b')/n for a' summed instances of A and b' of B
            sa = (st[0] * n + st[1] * n) / 2; sb = (st[0] * n - st[1] * n) / 8
            if abs(sa - nA) > 1e-9 or abs(sb - nB) > 1e-9: return 'composite sample of %d with fraction %g sums %g instances of A and %g of B; the prediction assumes %d and %d' % (n, f, sa, sb, nA, nB)
            if a != b: return 'modes were not drawn in lock-step (%d, %d)' % (a, b)
        if kind == 'disjoint':
            if sorted([a, b]) != [0, n]: return 'disjoint sample of %d drew %d/%d fields' % (n, a, b)
            if t[7] != '1': return 'disjoint sample consumed %s uniform deviates' % t[7]
        return None
    return chk


def unit_mean_outcomes(g):
    """a discrete joint law of two unit-mean factors: (a_k, b_k, p_k)"""
    k = g.choice([1, 2, 3])
    if k == 1:
        d, e = g.r.uniform(0.1, 0.9), g.r.uniform(0.1, 0.9)
        sgn = g.choice([1, -1])
        return [(1 - d, 1 - sgn * e, 0.5), (1 + d, 1 + sgn * e, 0.5)]
    if k == 2:
        d = g.r.uniform(0.1, 0.9)
        return [(1 - d, 1.0, 0.25), (1 + d, 1.0, 0.25), (1.0, 1 - d / 2, 0.25), (1.0, 1 + d / 2, 0.25)]
    d, e = g.r.uniform(0.1, 0.9), g.r.uniform(0.1, 0.9)
    return [(1 - d, 1 - e, 0.25), (1 - d, 1 + e, 0.25), (1 + d, 1 - e, 0.125), (1 + d, 1 + e, 0.375)][:4] if False else \
           [(1 - d, 1 - e, 0.3), (1 + d, 1 + e, 0.3), (1 - d, 1 + e, 0.2), (1 + d, 1 - e, 0.2)]


def pure_state(g):
    th, ph = g.r.uniform(0, math.pi), g.r.uniform(0, 2 * math.pi); I = g.choice([1.0, 2.0, 0.5, g.r.uniform(0.1, 10)])
    N, a, b, c = g.choice(QUADS)
    return g.choice([[I, I * a / N, I * b / N, I * c / N], [1.0, 1.0, 0.0, 0.0], [2.0, 0.0, -2.0, 0.0], [1.0, 0.0, 0.0, 1.0]])


def gen_C05(g, tier):
    n = 10 if tier == 'quick' else 150
    cs = []
    fam = [s for _, s in stokes_family(g, 6 if tier == 'quick' else 60)]
    mid = [s for s in fam if 1e-6 < s[0] < 1e6] or [[1.0, 0.2, 0.1, 0.0]]
    fracs = [0.0, 1.0, 0.25, 0.5, 0.75, 0.1, 1 / 3.0, 0.999, 0.001, 0.6]
    # instance counts for every (fraction, sample size) on a grid: exhaustive over n = 1..24
    for f in fracs:
        for ns in list(range(1, 25)) + [100, 1000]:
            cs.append(Case('du.counts composite %s %d' % (dhex(f), ns), 'cmp', 'composite-counts', check=counts_check('composite', f, ns)))
    for ns in (1, 2, 3, 8, 100):
        cs.append(Case('du.counts superposed %s %d' % (dhex(0.0), ns), 'cmp', 'superposed-counts', check=counts_check('superposed', 0, ns)))
        for f in (0.0, 0.25, 1.0):
            for r in (0, 1, 2 ** 29, 2 ** 30, 2 ** 31 - 2, 2 ** 31 - 1, g.randint(0, 2 ** 31 - 1)):
                cs.append(Case('du.counts disjoint %s %d %d' % (dhex(f), ns, r), 'cmp', 'disjoint-counts', check=counts_check('disjoint', f, ns)))
    for _ in range(n):
        SA, SB = g.choice(mid), g.choice(mid)
        f = g.choice(fracs + [g.random()]); ns = g.choice([1, 1, 2, 3, 4, 7, 8, 16, 33])
        kappa = g.choice([0.0, 0.0, 0.3, -0.2, g.r.uniform(-0.5, 1.5)])
        lag = g.choice([0, 1, 2])
        kinds = mode_kinds(g)
        for kind in ('superposed', 'composite', 'disjoint', 'coherent'):
            ka = g.choice(kinds); kb = g.choice(kinds)
            ka = ka[1] or 'square %s %d %d' % (dhex(0.5), g.randint(2, 5), ns); kb = kb[1] or 'square %s %d %d' % (dhex(1.0), g.randint(2, 5), ns)
            cs.append(Case('du.theory %s %s %d %s %d %s %s %s %s' % (kind, dhex(f), ns, dhex(kappa), lag, hexes(SA), ka, hexes(SB), kb), 'cmp', kind + '-theory'))
            cs.append(Case('du.theory %s %s %d %s %d %s plain %s plain' % (kind, dhex(f), ns, dhex(0.0), lag, hexes(SA), hexes(SB)), 'cmp', kind + '-theory-plain', check=finite_all))
        for kind in ('superposed', 'composite', 'disjoint'):
            devs = [g.choice(NODES) if g.random() < 0.3 else f32(g.r.gauss(0, 1)) for _ in range(8 * ns)]
            cs.append(Case('du.gen %s %s %d %d %s %s %s' % (kind, dhex(f), ns, g.randint(0, 2 ** 31 - 1), hexes(SA), hexes(SB), hexes(devs)), 'cmp', kind + '-generator'))
    # exact ensemble moments of what is generated against what is predicted
    for _ in range(max(2, n // 5)):
        SA, SB = g.choice(mid), g.choice(mid)
        cs.append(Case('o.c05.super %s %s 0' % (hexes(SA), hexes(SB)), 'orc', 'superposed-moments', check=c05_small(2, 1e-12)))
        oc = unit_mean_outcomes(g)
        cs.append(Case('o.c05.super %s %s %d %s' % (hexes(SA), hexes(SB), len(oc), ' '.join(hexes(o) for o in oc)), 'orc', 'superposed-moments-covariant', check=c05_small(2, 1e-12)))
    for _ in range(n):
        SA, SB = g.choice(fam), g.choice(fam)
        if not (1e-3 < SA[0] / max(SB[0], 1e-300) < 1e3): SB = [SA[0] * x for x in g.choice(mid)]
        f = g.choice(fracs + [g.random()]); ns = g.choice([1, 2, 3, 4, 5, 8, 12, 31])
        kappa = g.choice([0.0, 0.3, -0.2])
        cs.append(Case('o.c05.composite %s %d %s %s %s' % (dhex(f), ns, dhex(kappa), hexes(SA), hexes(SB)), 'orc', 'composite-moments', check=c05_small(2, 1e-12)))
        cs.append(Case('o.c05.disjoint %s %d %s %s' % (dhex(f), g.choice([1, 1, 2]), hexes(SA), hexes(SB)), 'orc', 'disjoint-moments', check=c05_small(4, 2e-9)))
        # fraction * n within a few ulp of an integer, on either side (the three places that truncate it must agree)
        nb = g.choice([2, 3, 7, 10, 50, 100, 49, 128, 200]); kb = g.randint(1, nb - 1); fb = kb / nb
        fb = g.choice([fb, math.nextafter(fb, 0.0), math.nextafter(fb, 1.0), math.nextafter(math.nextafter(fb, 0.0), 0.0), g.choice([0.29, 0.57, 0.58, 0.07, 0.14, 0.28, 0.55])])
        if fb in (0.29, 0.57, 0.58, 0.07, 0.14, 0.28, 0.55): nb = 100
        cs.append(Case('o.c05.composite %s %d %s %s %s' % (dhex(fb), nb, dhex(kappa), hexes(SA), hexes(SB)), 'orc', 'composite-moments-count-boundary', check=c05_small(2, 1e-12)))
        A, B = pure_state(g), pure_state(g)
        coh = g.choice([0.0, 0.25, 0.5, 1.0, g.random()])
        # mean at every coherence; covariance only at zero coherence (second residual masked otherwise)
        cs.append(Case('o.c05.coherent %s %s %s 16' % (dhex(coh), hexes(A), hexes(B)), 'orc', 'coherent-moments', check=c05_small(2 if coh == 0.0 else 1, 1e-12)))
        # independently modulated modes (two- and three-point unit-mean laws, different on A and B, or on one mode only)
        d, e = g.r.uniform(0.2, 0.9), g.r.uniform(0.1, 0.5)
        ma = '2 %s %s' % (hexes([1 - d, 0.5]), hexes([1 + d, 0.5])); mb = '3 %s %s %s' % (hexes([1 - e, 0.25]), hexes([1.0, 0.5]), hexes([1 + e, 0.25]))
        for mods in (ma + ' ' + mb, ma + ' 0', '0 ' + mb):
            cs.append(Case('o.c05.coherent %s %s %s 8 %s' % (dhex(coh), hexes(A), hexes(B), mods), 'orc', 'coherent-moments-modulated', check=coherent_mod_check(coh == 0.0)))
    # coherent samples of two instances whose modulation is correlated from one instance to the next (zero coherence)
    for kind, which in ([('hold', g.choice([0, 1]))] if tier == 'quick' else [('hold', 0), ('hold', 1), ('hold', 2), ('boxcar', 0), ('boxcar', 1)]):
        A, B = pure_state(g), pure_state(g)
        cs.append(Case('o.c05.coherentlag %s %s %s %d %s' % (hexes(A), hexes(B), kind, which, dhex(g.r.uniform(0.2, 0.9))), 'orc', 'coherent-two-instances-correlated-modulation', check=c05_small(2, 1e-11)))
    # lagged statistics with time-correlated modulation (several of these are recorded findings)
    def first_small(tol):
        def chk(vals, line):
            t = line.split()
            if not t or t[0] != 'ok': return 'error result ' + line[:120]
            x = hexd(t[1])
            if not (x <= tol): return 'predicted and exact ensemble value differ by %g (exact %s, predicted %s)' % (x, ' '.join('%.9g' % hexd(h) for h in t[2:3]), ' '.join('%.9g' % hexd(h) for h in t[3:4]))
            return None
        return chk
    for f in (1.0, 0.5, 0.25, 0.75):
        for ns in (1, 2, 4, 5):
            for w in (1, 2, 3, 5):
                for lag in (0, 1, 2):
                    if tier == 'quick' and g.random() < 0.6: continue
                    cs.append(Case('o.c05.lagcomposite %s %d %d %d %s' % (dhex(f), ns, w, lag, dhex(g.choice([0.5, 1.0, 0.09]))), 'orc', 'composite-lagged-boxcar', check=first_small(1e-12)))
    for sel in (0, 1):
        for ns in (1, 2, 4):
            for lag in (0, 1, 2):
                SA = g.choice(mid)
                for tag, kind in mode_kinds(g):
                    if kind is None: kind = 'square %s %d %d' % (dhex(0.5), g.randint(2, 5), ns)
                    cs.append(Case('o.c05.lagdisjoint %d %d %d %s %s' % (sel, ns, lag, hexes(SA), kind), 'orc', 'disjoint-lagged-' + tag, check=first_small(1e-12)))
    for f in (0.5, 0.25, 0.75):
        for w in (1, 2, 3, 5):
            for which in (0, 1, 2):
                for lag in (1, 2, 3):
                    cs.append(Case('o.c05.lagdisjointmix %s %d %d %s %d' % (dhex(f), lag, w, dhex(g.choice([0.5, 1.0, 0.09])), which), 'orc', 'disjoint-lagged-mixture', check=first_small(1e-12)))
    for ns in (1, 2, 4):
        for w in (1, 2, 3):
            for k in (0.0, 0.2, -0.1):
                cs.append(Case('o.c05.covboxcar %d %d %s %s %s' % (ns, w, dhex(0.5), dhex(0.25), dhex(k)), 'orc', 'superposed-covariant-boxcar', check=first_small(1e-12)))
    return cs


def c05_replay_check(vals, line):
    t = line.split()
    if not t or t[0] != 'ok': return 'error result ' + line[:120]
    if len(t[1]) == 16: return None if hexd(t[1]) <= 1e-12 else 'predicted and exact value differ by %g' % hexd(t[1])
    if t[1] != '1': return 'a generated or predicted statistic is not finite'
    x = hexd(t[2])
    return None if x <= 2e-9 else 'mean residual %g' % x


C05 = dict(
    id='C05', module='EpsicProofs.Props.C05', gen=gen_C05, replay_check=c05_replay_check,
    rule='instance counts of composite samples for every fraction on a grid and every sample size 1..24, 100, 1000 (stub modes), '
         'superposed and disjoint draws (uniform source at 0, 1, mid, RAND_MAX-1, RAND_MAX); predictions (mean, covariance, lagged '
         'cross-covariance) of superposed / composite / disjoint / coherent samples for plain, log-normal, boxcar and rectangular '
         'modes with intensity covariance, compared bit for bit with the model at Float; generators on scripted deviates compared with '
         'the model; exact ensemble moments of the implementation: 5^8-node cubature of one superposed instance under discrete joint laws '
         'of the modulation factors, composite (measured counts x per-mode cubature), disjoint (selection probability counted over the '
         'whole range of random() by bisection; mixture of per-mode sample moments), coherent (cubature x 16-point phase quadrature)',
    trusted=['cubature exact for the degree-4 polynomials involved', 'glibc sqrt/sin/cos'],
    assumptions=['the Gaussian law satisfies the moment structure GaussE', 'instances of plain modes are independent because each consumes its own deviates (stream model)'],
    partial='lagged cross-covariances with time-correlated modulation (see known findings); coherent covariance only at zero coherence, as the property states',
)

SPECS = {'C01': C01, 'C05': C05, 'C06': C06, 'C07': C07, 'C08': C08}
