"""Properties C13 (fixed-size linear algebra) and C14 (rotation / basis matrices) through harness
group "lin"."""
import math
from fractions import Fraction as F
from fractions import Fraction
from .core import fr, frs, dhex
from .runner import Case
from . import props_mixed
from .props_alg import basis_args

GROUP = dict(name='lin', sources=['h_lin.cpp'], repo_sources=['util/Pauli.C', 'util/Dirac.C'], driver='lin', thread_mode=True)

SH4 = [(r, c) for r in range(1, 5) for c in range(1, 5)]
SHBIG = [(5, 5), (6, 6), (5, 6), (6, 5), (1, 6), (6, 1), (2, 5), (5, 2)]
SHALL = SH4 + SHBIG
TRIPLES = [(1, 1, 1), (1, 1, 2), (1, 2, 1), (2, 1, 1), (1, 2, 2), (2, 1, 2), (2, 2, 1), (2, 2, 2), (1, 3, 1), (3, 1, 3), (2, 3, 2), (3, 2, 3),
           (3, 3, 3), (2, 3, 4), (4, 3, 2), (3, 4, 2), (1, 4, 1), (4, 1, 4), (4, 4, 4), (3, 3, 1), (1, 3, 3), (2, 2, 3), (3, 2, 2), (2, 4, 3),
           (4, 2, 1), (1, 2, 4), (5, 5, 5), (6, 6, 6), (5, 6, 5), (6, 5, 6), (2, 6, 3), (3, 5, 2)]
CTRIPLES = [(1, 1, 1), (2, 2, 2), (2, 3, 2), (3, 2, 3), (3, 3, 3), (1, 3, 2), (2, 1, 3), (4, 4, 4)]
DIRECT = [(2, 2, 2, 2), (1, 2, 3, 1), (2, 3, 2, 1), (3, 1, 1, 2), (2, 1, 2, 3), (1, 1, 1, 1), (2, 3, 1, 2), (1, 3, 2, 2)]
PART = [(1, 1, 1, 1), (1, 2, 1, 2), (2, 1, 2, 1), (1, 3, 2, 1), (2, 2, 1, 3), (3, 1, 3, 1), (1, 1, 3, 3), (2, 2, 2, 2)]


def ints(g, n, lo=-4, hi=4):
    return [F(g.randint(lo, hi)) for _ in range(n)]


def matrices_for_inverse(g, n):
    """(tag, flat n*n) families: random, integer, permutation-like, needing row exchange, singular"""
    res = []
    res.append(('random', g.rats(n * n)))
    res.append(('small-int', ints(g, n * n)))
    perm = list(range(n)); g.shuffle(perm)
    res.append(('permutation', [F(g.randint(1, 5)) if perm[i] == j else F(0) for i in range(n) for j in range(n)]))
    m = ints(g, n * n)
    for i in range(n): m[i * n + i] = F(0)                      # zero diagonal: row exchanges needed
    res.append(('zero-diagonal', m))
    if n >= 2:
        m = ints(g, n * n); r = g.randint(0, n - 1)
        for j in range(n): m[r * n + j] = F(0)
        res.append(('zero-row', m))
        m = ints(g, n * n); c = g.randint(0, n - 1)
        for i in range(n): m[i * n + c] = F(0)
        res.append(('zero-column', m))
        m = ints(g, n * n); a, b = g.r.sample(range(n), 2); k = F(g.randint(-3, 3))
        for j in range(n): m[a * n + j] = k * m[b * n + j]
        res.append(('rank-deficient-rows', m))
        if n >= 3:
            m = ints(g, n * n)
            for j in range(n): m[(n - 1) * n + j] = m[j] + m[n + j]   # last row = row0 + row1
            res.append(('rank-deficient-sum', m))
    res.append(('zero', [F(0)] * (n * n)))
    res.append(('identity', [F(int(i == j)) for i in range(n) for j in range(n)]))
    res.append(('tiny-huge', [x * F(2) ** g.randint(-40, 40) for x in g.rats(n * n)]))
    return res


def gen_C13(g, tier):
    reps = 2 if tier == 'quick' else 40
    cs = []
    for n in range(1, 7):
        for _ in range(reps):
            a, b, c = g.rats(n), g.rats(n), g.rat()
            for op, args in (('add', a + b), ('sub', a + b), ('neg', a), ('smul', a + [c]), ('sdiv', a + [c]), ('dot', a + b), ('normsq', a),
                             ('eq', a + b), ('eq', a + a), ('assign', a + [c]), ('cdot', g.rats(4 * n)), ('cnormsq', g.rats(2 * n)), ('cparts', g.rats(2 * n))):
                cs.append(Case('v %d %s %s' % (n, op, frs(args)), 'cmp', 'vector'))
        for i in range(n):
            cs.append(Case('v %d basis %d' % (n, i), 'cmp', 'vector-basis'))
            cs.append(Case('v %d get %s %d %s' % (n, frs(g.smalls(n)), i, fr(g.small())), 'cmp', 'vector-access'))
    for (r, c) in SHALL:
        for _ in range(reps):
            a, b, s = g.rats(r * c), g.rats(r * c), g.rat()
            for op, args in (('add', a + b), ('sub', a + b), ('neg', a), ('smul', a + [s]), ('sdiv', a + [s]), ('mulvec', a + g.rats(c)),
                             ('vecmul', g.rats(r) + a), ('transpose', a), ('herm', g.rats(2 * r * c)), ('hermr', a), ('outer', g.rats(r) + g.rats(c)),
                             ('normsq', a)):
                cs.append(Case('m %d %d %s %s' % (r, c, op, frs(args)), 'cmp', 'matrix'))
        cs.append(Case('m %d %d zero' % (r, c), 'cmp', 'matrix'))
        s = g.nz()
        cs.append(Case('m %d %d scalar %s' % (r, c, fr(s)), 'cmp', 'scalar-constructor' + ('-tall' if r > c else '')))
        cs.append(Case('o.c13.scalar %d %d %s' % (r, c, fr(s)), 'orc', 'scalar-constructor' + ('-tall' if r > c else '')))
        for i in range(r * c):
            cs.append(Case('m %d %d datum %s %d %s' % (r, c, frs(g.smalls(r * c)), i, fr(g.small())), 'cmp', 'matrix-access'))
    for (r, k, c) in TRIPLES:
        for _ in range(reps):
            cs.append(Case('mul %d %d %d %s' % (r, k, c, frs(g.rats(r * k + k * c))), 'cmp', 'matrix-product'))
    for (r, k, c) in CTRIPLES:
        for _ in range(reps):
            cs.append(Case('cmul %d %d %d %s' % (r, k, c, frs(g.rats(2 * (r * k + k * c)))), 'cmp', 'complex-product'))
    for n in range(1, 7):
        cs.append(Case('sq %d identity' % n, 'cmp', 'square'))
        for _ in range(reps):
            cs.append(Case('sq %d trace %s' % (n, frs(g.rats(n * n))), 'cmp', 'square'))
            if n <= 4: cs.append(Case('sq %d ctrace %s' % (n, frs(g.rats(2 * n * n))), 'cmp', 'square'))
            for tag, m in matrices_for_inverse(g, n):
                cs.append(Case('sq %d inv %s' % (n, frs(m)), 'cmp', 'inverse-' + tag))
                cs.append(Case('sq %d gjid %s' % (n, frs(m)), 'cmp', 'gauss-jordan-' + tag))
                cs.append(Case('o.c13.inv %d %s' % (n, frs(m)), 'orc', 'inverse-' + tag, check=inv_oracle))
            cs.append(Case('sq %d gj %s' % (n, frs(ints(g, n * n) + g.rats(2 * n))), 'cmp', 'gauss-jordan-rhs'))
            if n <= 4:
                cm = g.rats(2 * n * n)
                cs.append(Case('sq %d cinv %s' % (n, frs(cm)), 'cmp', 'complex-inverse'))
                cs.append(Case('o.c13.cinv %d %s' % (n, frs(cm)), 'orc', 'complex-inverse', check=inv_oracle))
                sing = g.rats(2 * n * n)
                if n >= 2:
                    for j in range(n):
                        sing[2 * (n + j)] = -sing[2 * j + 1]; sing[2 * (n + j) + 1] = sing[2 * j]   # row1 = i * row0
                    cs.append(Case('sq %d cinv %s' % (n, frs(sing)), 'cmp', 'complex-singular'))
    for sh in DIRECT:
        for _ in range(reps):
            kv = g.rats(sh[0] * sh[1] + sh[2] * sh[3])
            cs.append(Case('direct %d %d %d %d %s' % (sh + (frs(kv),)), 'cmp', 'kronecker', check=kron_check(sh, kv)))
    for (u, l, b, r) in PART:
        for _ in range(reps):
            vals = g.rats((u + b) * (l + r))
            cs.append(Case('part %d %d %d %d partition %s' % (u, l, b, r, frs(vals)), 'cmp', 'partition'))
            cs.append(Case('part %d %d %d %d compose %s' % (u, l, b, r, frs(vals)), 'cmp', 'compose'))
    for m in range(1, 5):
        for _ in range(reps):
            cs.append(Case('partsym %d partitionsym %s' % (m, frs(g.rats((m + 1) * (m + 1)))), 'cmp', 'partition'))
            cs.append(Case('partsym %d composesym %s' % (m, frs(g.rats(1 + m + m * m))), 'cmp', 'compose'))
    for i in range(4):
        for j in range(4):
            cs.append(Case('dirac %d %d' % (i, j), 'cmp', 'dirac'))
    cs.append(Case('o.c13.earlydirac', 'orc', 'dirac-requested-during-static-initialisation'))
    for _ in range(5 * reps):
        cs.append(Case('cross %s' % frs(g.rats(6)), 'cmp', 'cross'))
        cs.append(Case('o.c13.assoc %s' % frs(g.rats(6 + 12 + 8 + 12 + 4 + 2)), 'orc', 'laws'))
        cs.append(Case('o.c13.cherm %s' % frs(g.rats(24)), 'orc', 'laws'))
        cs.append(Case('o.c13.vec %s' % frs(g.rats(10)), 'orc', 'laws'))
        cs.append(Case('o.c13.kron %s' % frs(g.rats(16)), 'orc', 'laws'))
        cs.append(Case('o.c13.blocks %s' % frs(g.rats(12)), 'orc', 'laws'))
    return cs


def inv_oracle(vals, line):
    """two-sided inverse exactly, or a reported singularity"""
    if vals is None:
        return None if line.startswith('err singular') else 'unexpected result ' + line[:80]
    bad = [i for i, v in enumerate(vals) if v != 0]
    return None if not bad else 'inv(m)*m or m*inv(m) differs from the identity at positions %s' % bad[:6]



GROUP_DBL = dict(name='dbl', sources=['h_dbl.cpp'], repo_sources=[], driver=None, replay_prefix=('o.c11.narrowvar', 'o.c12.ldmean', 'o.c13.cinvd', 'o.c13.monomial', 'o.c13.inttypes', 'o.c14.angletypes', 'o.c15.dyadic'))


def gen_dbl_c13(g, tier):
    """double-only oracles of C13 (harness group dbl)"""
    cs = []
    reps = 2 if tier == 'quick' else 25
    # complex<double> inverse of well-conditioned integer matrices at extreme overall scales (|z|^2 under- or overflows)
    def cinvd_ok(vals, line):
        t = line.split()
        if not t or t[0] != 'ok' or len(t) != 3: return 'error result ' + line[:100]
        if t[1] != '1': return 'a well-conditioned non-singular complex matrix was reported singular'
        import struct
        r = struct.unpack('<d', struct.pack('<Q', int(t[2], 16)))[0]
        if not (r <= 1e-9): return 'inv(m) m differs from the identity by %g' % r
        return None
    def cdet(m, n):
        if n == 1: return m[0][0]
        return sum(((-1) ** j) * m[0][j] * cdet([row[:j] + row[j + 1:] for row in m[1:]], n - 1) for j in range(n))
    for _ in range(reps * 3):
        n = g.choice([2, 3, 4])
        while True:
            ent = [[complex(g.randint(-3, 3), g.randint(-3, 3)) if g.random() < 0.7 else 0j for _ in range(n)] for _ in range(n)]
            d = cdet(ent, n)
            if abs(d) >= 1: break
        flat = []
        for row in ent:
            for z in row: flat += [F(int(z.real)), F(int(z.imag))]
        for sc in (1.0, 1e-170, 1e-200, 1e155, 1e200, 2.0 ** -600, 2.0 ** 520):
            cs.append(Case('o.c13.cinvd %d %s %s' % (n, dhex(sc), frs(flat)), 'orc', 'complex-double-inverse-extreme-scale', check=cinvd_ok))
    # huge and tiny entries inside one matrix (exponents up to 2000 binary orders apart): monomial matrices, exact inverse
    def mono_ok(vals, line):
        t = line.split()
        return None if t[:4] == ['ok', '1', '1', '0'] else 'a non-singular matrix with entries of very different magnitude was not inverted exactly: ' + line[:60]
    for _ in range(max(24, reps * 4)):
        n = g.choice([2, 3, 4]); perm = list(range(n)); g.r.shuffle(perm)
        ex = [g.choice([0, 1, -1, 300, -300, 511, 512, 513, -512, -513, 600, -600, 1000, -1000, 1020, -1020, g.randint(-1000, 1000)]) for _ in range(n)]
        if g.random() < 0.75:      # one huge and one tiny entry for certain
            ex[0] = g.choice([1000, 1020, 600, 900, 513, g.randint(520, 1020)]); ex[1] = g.choice([-1000, -1020, -600, -700, -1010, -g.randint(520, 1020)]); g.r.shuffle(ex)
        cs.append(Case('o.c13.monomial %d %s %s %s' % (n, ' '.join(map(str, perm)), ' '.join(map(str, ex)), ' '.join(str(g.randint(0, 3)) for _ in range(n))), 'orc', 'huge-and-tiny-entries-in-one-matrix', check=mono_ok))
    return cs


def gen_dbl_inttypes(g, tier):
    """integer- and float-typed scalars against the double scalar (harness group dbl): Vector, Matrix, Stokes, Quaternion, Estimate"""
    cs = []
    for _ in range(10 if tier == 'quick' else 300):
        k = g.choice([2, 3, -7, 1, -1, 10, 100, g.randint(2, 60), -g.randint(2, 60), 32767, 32768, 46340, 46341, 65535, 65536, 65537, 100000, -65537, 16777215, 16777217, 2147483647, -2147483647])
        cs.append(Case('o.c13.inttypes %d %s' % (k, ' '.join(dhex(g.r.uniform(-5, 5)) for _ in range(4))), 'orc', 'scalar-of-another-arithmetic-type'))
    return cs


def gen_dbl_c12(g, tier):
    """MeanEstimate<long double> with variances far outside the range of double (harness group dbl)"""
    from .props_est import small_hex_check
    cs = []
    for _ in range(10 if tier == 'quick' else 300):
        n = g.randint(1, 5); base = g.choice([-4000, -400, -330, -320, 0, 300, 320, 400, 4000, g.randint(-4500, 4500)])
        items = []
        for _ in range(n): items += [dhex(g.r.uniform(-9, 9)), str(base + g.randint(-3, 3))]
        cs.append(Case('o.c12.ldmean %d %s' % (n, ' '.join(items)), 'orc', 'long-double-variances-beyond-double', check=small_hex_check(1e-15)))
    return cs


def gen_dbl_c11(g, tier):
    """Estimate<T,U> with U narrower than T (harness group dbl), values over many decades"""
    cs = []
    def chk(vals, line):
        t = line.split()
        if not t or t[0] != 'ok' or len(t) != 3: return 'error result ' + line[:100]
        import struct
        w = struct.unpack('<d', struct.pack('<Q', int(t[1], 16)))[0]
        if not (w <= 5000): return 'variance of an Estimate<T,U> with narrower U differs from the rule by %g units of the precision of U' % w
        if t[2] != '0': return '%s values differ from the reference' % t[2]
        return None
    for _ in range(20 if tier == 'quick' else 600):
        ex, ey = g.choice([0, 0, g.r.uniform(-8, 8), g.r.uniform(8, 16.5), g.r.uniform(-16.5, -8), g.r.uniform(70, 140), g.r.uniform(-140, -70)]), 0
        ey = ex + g.r.uniform(-1, 1)
        x = g.choice([-1, 1]) * g.r.uniform(1, 9) * 10 ** ex; y = g.choice([-1, 1]) * g.r.uniform(1, 9) * 10 ** ey
        vx = (abs(x) * 10 ** g.r.uniform(-4, -1)) ** 2; vy = (abs(y) * 10 ** g.r.uniform(-4, -1)) ** 2
        cs.append(Case('o.c11.narrowvar %s %s %s %s' % (dhex(x), dhex(vx), dhex(y), dhex(vy)), 'orc', 'variance-type-narrower-than-value-type', check=chk))
    return cs


def gen_dbl_c14(g, tier):
    """double-only oracles of C14 (harness group dbl): the angle passed in other arithmetic types"""
    cs = []
    n = 8 if tier == 'quick' else 150
    axes = unit_axes(g, n)
    for v in axes[:max(4, n // 4)]:
        for k in (0, 1, 2, -7, 5, 90, g.randint(-30, 30)):
            cs.append(Case('o.c14.angletypes %s %d' % (frs(v), k), 'orc', 'rotation-angle-types'))
    return cs


C13 = dict(
    id='C13', module='EpsicProofs.Props.C13', gen=gen_C13,
    extra=[(props_mixed.GROUP, lambda g, tier: props_mixed.gen_mixed(g, tier, ['mp.outer', 'mp.direct']))],
    rule='exact-rational (and complex-rational) vectors N=1..6 and matrices of 24 shapes up to 6x6; 32 product shape triples; '
         'inverse on random, small-integer, permutation-like, zero-diagonal (row exchanges), zero row/column, rank-deficient, zero, '
         'identity and 2^±40-scaled matrices for n=1..6 (complex n<=4); scalar constructor for every shape incl. Rows>Columns; '
         'Kronecker, partition, compose; Dirac matrices; everything under ASan/UBSan (an out-of-bounds access is an error result)',
    trusted=['GMP exact rationals', 'fabs(Rat)->double shim affects only the pivot order, which the theorems quantify over'],
    assumptions=['IEEE rounding not modelled'],
    partial='floating-point rounding; near-singular matrices in floating point',
)


# ------------------------------------------------------------------------------------------ C14

def unit_axes(g, n):
    """rational points on the sphere by stereographic projection, plus coordinate axes"""
    res = [[1, 0, 0], [0, 1, 0], [0, 0, 1], [0, 0, -1]]
    for _ in range(n):
        a, b = g.small(), g.small()
        d = 1 + a * a + b * b
        res.append([2 * a / d, 2 * b / d, (a * a + b * b - 1) / d])
    return [[F(x) for x in v] for v in res]


def angles(g, n):
    res = [0.0, math.pi / 2, math.pi, 3 * math.pi / 2, 2 * math.pi, -math.pi / 2, 5 * math.pi / 2, 7.0, 1e-8, 100.0, math.pi / 3]
    res += [g.r.uniform(-20, 20) for _ in range(n)]
    return res


def rot_args(v, th):
    return '%s %s %s %s' % (frs(v), dhex(th), dhex(math.sin(th)), dhex(math.cos(th)))


def kron_check(sh, kv):
    """defining identity of the Kronecker product: result[ar*Br+br][ac*Bc+bc] = A[ar][ac] * B[br][bc]"""
    Ar, Ac, Br, Bc = sh
    A = [[kv[i * Ac + j] for j in range(Ac)] for i in range(Ar)]
    off = Ar * Ac
    B = [[kv[off + i * Bc + j] for j in range(Bc)] for i in range(Br)]
    want = [A[i // Br][j // Bc] * B[i % Br][j % Bc] for i in range(Ar * Br) for j in range(Ac * Bc)]
    def chk(vals, line):
        if vals is None: return 'error result ' + line[:100]
        if list(vals) != want: return 'direct(A,B) differs from the Kronecker product at %s' % [k for k in range(min(len(vals), len(want))) if vals[k] != want[k]][:6]
        return None
    return chk


def datum_check(vals_in, i, v):
    """generic element access on a matrix: the const accessor reads the i-th stored scalar (row-major), the mutable one
    writes exactly that scalar, ndim is the number of stored scalars"""
    def chk(vals, line):
        if vals is None: return 'error result ' + line[:100]
        n = len(vals_in)
        if len(vals) != n + 2: return 'unexpected output'
        if vals[0] != vals_in[i]: return 'const DatumTraits::element(%d) read %s, stored %s' % (i, vals[0], vals_in[i])
        want = list(vals_in); want[i] = v
        if list(vals[1:n + 1]) != want: return 'mutable DatumTraits::element(%d) wrote to the wrong place' % i
        if vals[n + 1] != n: return 'ndim is %s, %d scalars are stored' % (vals[n + 1], n)
        return None
    return chk


def gen_datum(g, tier):
    """implementation-only oracle used by C04 (element-access traits of Matrix and Vector, every shape up to 4x5, every index)"""
    cs = []
    for (r, c) in SHALL:
        if True:
            vals = [Fraction(10 * (a + 1) + (b + 1)) for a in range(r) for b in range(c)]
            for i in range(r * c):
                v = Fraction(-7, 2)
                cs.append(Case('m %d %d datum %s %d %s' % (r, c, frs(vals), i, fr(v)), 'orc', 'matrix-traits-%s' % ('square' if r == c else 'nonsquare'),
                               check=datum_check(vals, i, v)))
    return cs


def small_abs(tol, xs):
    """every residual (an exact rational) is below tol times the magnitude of the operand"""
    scale = max([1.0] + [abs(float(x)) for x in xs])
    def chk(vals, line):
        if vals is None: return 'error result ' + line[:100]
        for i, v in enumerate(vals):
            if abs(float(v)) > tol * scale: return 'residual %.3g exceeds %.3g at output %d (basis matrix not orthonormal / not proper / get_in, get_out not inverse)' % (abs(float(v)), tol * scale, i)
        return None
    return chk


def gen_C14(g, tier):
    def ell(o, e): return 'ell %s %s %s' % (dhex(o), dhex(e), ' '.join(dhex(x) for x in (math.cos(2.0 * o), math.sin(2.0 * o), math.cos(2.0 * e), math.sin(2.0 * e))))
    n = 8 if tier == 'quick' else 150
    cs = []
    axes = unit_axes(g, n)
    for v in axes:
        for th in angles(g, 3 if tier == 'quick' else 20):
            cs.append(Case('rotation ' + rot_args(v, th), 'cmp', 'rotation-unit-axis'))
            x = g.rats(3)
            cs.append(Case('rotation.apply %s %s' % (rot_args(v, th), frs(x)), 'cmp', 'rotation-unit-axis'))
            cs.append(Case('o.c14.rotation %s %s' % (rot_args(v, th), frs(x)), 'orc', 'rotation-unit-axis'))
    for _ in range(n):
        v, th, x = g.rats(3), g.r.uniform(-20, 20), g.rats(3)
        cs.append(Case('rotation ' + rot_args(v, th), 'cmp', 'rotation-general-axis'))
        cs.append(Case('o.c14.rotation %s %s' % (rot_args(v, th), frs(x)), 'orc', 'rotation-general-axis'))
    bas = basis_args(g, tier)
    for tag, b in bas:
        x = g.rats(3)
        cs.append(Case('basis.obj 1 %s %s' % (b, frs(x)), 'cmp', 'basis-' + tag))
        cs.append(Case('o.c14.basis 1 %s %s' % (b, frs(x)), 'orc', 'basis-' + tag, check=(small_abs(1e-13, x) if tag == 'ell' else None)))
    for _ in range(10 if tier == 'quick' else 300):
        k = g.randint(1, 20)
        seq = [g.choice(bas)[1] for _ in range(k)]
        cs.append(Case('basis.obj %d %s %s' % (k, ' '.join(seq), frs(g.rats(3))), 'cmp', 'basis-sequence'))
        cs.append(Case('o.c14.history %d %s %s' % (k, ' '.join(seq), frs(g.rats(3))), 'orc', 'basis-sequence'))
        seq2 = seq + [g.choice(['lin', 'cir'])]
        cs.append(Case('o.c14.basis %d %s %s' % (k + 1, ' '.join(seq2), frs(g.rats(3))), 'orc', 'basis-sequence'))
        x = g.rats(3)
        cs.append(Case('o.c14.basis %d %s %s' % (k, ' '.join(seq), frs(x)), 'orc', 'basis-sequence-any', check=small_abs(1e-13, x)))
    # histories with refused settings: whatever basis the object is left in, it is orthonormal and in/out are inverse
    for _ in range(6 if tier == 'quick' else 150):
        seq = [g.choice(bas)[1] for _ in range(g.randint(1, 4))] + ['bad' for _ in range(g.randint(1, 2))]
        x = g.rats(3)
        cs.append(Case('o.c14.basis %d %s %s' % (len(seq), ' '.join(seq), frs(x)), 'orc', 'basis-sequence-refused-setting', check=small_abs(1e-13, x)))
        cs.append(Case('basis.obj %d %s %s' % (len(seq), ' '.join(seq), frs(x)), 'cmp', 'basis-sequence-refused-setting'))
    # an elliptical setting whose orientation is bit-equal to the one a named basis left behind (0 or pi/4), after a refused setting
    for _ in range(4 if tier == 'quick' else 60):
        e1, e2, o1 = g.r.uniform(-1, 1), g.choice([0.25 * math.pi, 0.2, g.r.uniform(-1, 1)]), g.r.uniform(-3, 3)
        for seq in (['cir', 'bad', ell(0.25 * math.pi, e2)], ['lin', 'bad', ell(0.0, e2)], [ell(o1, e1), 'lin', 'bad', ell(0.0, e2)], [ell(o1, e1), 'cir', 'bad', ell(0.25 * math.pi, 0.25 * math.pi)],
                    ['cir', ell(0.25 * math.pi, e2)], ['lin', ell(0.0, e2)], [ell(o1, e1), 'bad', ell(o1, e2)], ['bad', ell(0.0, e1)]):
            x = g.rats(3)
            cs.append(Case('basis.obj %d %s %s' % (len(seq), ' '.join(seq), frs(x)), 'cmp', 'basis-sequence-named-refused-elliptical'))
            cs.append(Case('o.c14.history %d %s %s' % (len(seq), ' '.join(seq), frs(x)), 'orc', 'basis-sequence-named-refused-elliptical'))
    # two objects used in turn (settings repeated across objects, copies of the same angles)
    for _ in range(8 if tier == 'quick' else 200):
        pool = [g.choice(bas)[1] for _ in range(3)]
        steps = []
        for _ in range(g.randint(2, 8)): steps.append('%d %s' % (g.randint(0, 1), g.choice(pool)))
        cs.append(Case('o.c14.twoobj %d %s %s' % (len(steps), ' '.join(steps), frs(g.rats(3))), 'orc', 'two-objects-interleaved'))
    # successive elliptical settings that share one of the two angles (a setting must take effect whatever the previous one was)
    for _ in range(6 if tier == 'quick' else 200):
        o1, o2, e1, e2 = g.r.uniform(-4, 4), g.r.uniform(-4, 4), g.r.uniform(-2, 2), g.r.uniform(-2, 2)
        for seq in ([ell(o1, e1), ell(o2, e1)], [ell(o1, e1), ell(o1, e2)], [ell(o1, e1), 'lin', ell(o2, e1)], [ell(o1, e1), ell(o1, e1)],
                    [ell(o1, e1), ell(o2, e1), ell(o1, e2), ell(o2, e2)], [ell(o1, e1), 'cir', ell(o1, e2), ell(o2, e2)]):
            x = g.rats(3)
            cs.append(Case('basis.obj %d %s %s' % (len(seq), ' '.join(seq), frs(x)), 'cmp', 'basis-sequence-shared-angle'))
            cs.append(Case('o.c14.history %d %s %s' % (len(seq), ' '.join(seq), frs(x)), 'orc', 'basis-sequence-shared-angle'))
    for _ in range(5 * n):
        cs.append(Case('cross %s' % frs(g.rats(6)), 'cmp', 'cross'))
        cs.append(Case('v 3 dot %s' % frs(g.rats(6)), 'cmp', 'dot'))
    return cs


C14 = dict(
    id='C14', module='EpsicProofs.Props.C14', gen=gen_C14,
    rule='rotation matrices for rational unit axes (stereographic points of the sphere, coordinate axes) and general axes, '
         'angles at multiples of pi/2, beyond 2 pi and random in [-20,20]; the sin/cos/1-cos leaves are the doubles libm/IEEE '
         'produce, so the comparison of every matrix entry is exact; Basis objects under single settings and sequences of 1..20 '
         'settings (linear, circular, elliptical at special and random angles); exact orthonormality oracle in the named bases',
    trusted=['GMP exact rationals', 'glibc sin/cos; Python math for the leaf values handed to the model'],
    assumptions=['with rounded sin/cos the matrix is orthogonal only to rounding: the theorems are over the reals with s^2+c^2=1'],
    partial='orthogonality/determinant to rounding in double for arbitrary angles',
)

SPECS = {'C13': C13, 'C14': C14}
