"""Properties C11 (first-order variance propagation) and C12 (weighted / circular means) through
harness group "est"."""
import math, itertools
from fractions import Fraction as F
from .core import fr, frs, dhex, hexd
from .runner import Case

GROUP = dict(name='est', sources=['h_est.cpp', 'h_est_cmul.cpp'], repo_sources=['util/true_math.c'], driver='est', thread_mode=True)


def hexes(xs): return ' '.join(dhex(x) for x in xs)


def small_hex_check(tol):
    """oracle lines print relative errors as hex doubles; each must be below tol (NaN fails)"""
    def chk(vals, line):
        t = line.split()
        if not t or t[0] != 'ok': return 'error result ' + line[:80]
        for i, h in enumerate(t[1:]):
            if h.startswith('#'): break
            x = hexd(h)
            if not (x <= tol): return 'residual %g exceeds %g at output %d' % (x, tol, i)
        return None
    return chk


DOMAINS = {
    'exp': lambda g: g.r.uniform(-20, 20),
    'log': lambda g: g.choice([g.r.uniform(1e-6, 10), 10 ** g.r.uniform(-30, 30), -g.r.uniform(0.1, 5)]),
    'sqrt': lambda g: g.choice([g.r.uniform(1e-6, 10), 10 ** g.r.uniform(-30, 30)]),
    'sin': lambda g: g.choice([g.r.uniform(-10, 10), math.pi / 2 + g.r.uniform(-1e-3, 1e-3), 100 * g.r.uniform(-1, 1)]),
    'cos': lambda g: g.choice([g.r.uniform(-10, 10), g.r.uniform(-1e-3, 1e-3), 100 * g.r.uniform(-1, 1)]),
    'acos': lambda g: g.choice([g.r.uniform(-0.99, 0.99), 1 - 10 ** g.r.uniform(-8, -2), -1 + 10 ** g.r.uniform(-8, -2)]),
    'atan': lambda g: g.choice([g.r.uniform(-10, 10), 10 ** g.r.uniform(-20, 20), -10 ** g.r.uniform(-20, 20)]),
    'sinh': lambda g: g.r.uniform(-20, 20),
    'cosh': lambda g: g.choice([g.r.uniform(-20, 20), g.r.uniform(-1e-3, 1e-3)]),
    'atanh': lambda g: g.choice([g.r.uniform(-0.99, 0.99), 1 - 10 ** g.r.uniform(-8, -2)]),
}


def copysign_check(u, var, v):
    """value = copysign of the operand values; variance of the first operand unchanged"""
    def chk(vals, line):
        t = line.split()
        if not t or t[0] != 'ok': return 'error result ' + line[:80]
        if dhex(hexd(t[1])) != dhex(math.copysign(u, v)): return 'copysign(%r, %r) returned value %r' % (u, v, hexd(t[1]))
        if hexd(t[2]) != var: return 'copysign changed the variance'
        return None
    return chk


def gen_C11(g, tier):
    n = 40 if tier == 'quick' else 1500
    cs = []
    for _ in range(n):
        a, b = g.rats(2), g.rats(2)
        a[1], b[1] = abs(a[1]), abs(b[1])
        for op in ('e.add', 'e.sub', 'e.mul', 'e.div'):
            cs.append(Case('%s %s %s' % (op, frs(a), frs(b)), 'cmp', 'arith-exact'))
        cs.append(Case('e.neg %s' % frs(a), 'cmp', 'arith-exact'))
        cs.append(Case('e.inverse %s' % frs(a), 'cmp', 'arith-exact'))
        cs.append(Case('e.access %s' % frs(a), 'cmp', 'arith-exact'))
        cm = g.rats(8)
        for k in (1, 3, 5, 7): cm[k] = abs(cm[k])
        cs.append(Case('e.cmul %s' % frs(cm), 'cmp', 'complex-product'))
        cs.append(Case('o.c11.arith %s %s' % (frs(a), frs(b)), 'orc', 'arith-exact'))
    # operands related to one another (equal state, equal value or variance only, opposite values): the rules are
    # those of independent operands whatever the operands' states are
    for _ in range(max(6, n // 5)):
        a = g.rats(2); a[1] = abs(a[1]); o = g.rats(2); o[1] = abs(o[1])
        for b, cls in ((list(a), 'operands-equal'), ([a[0], o[1]], 'operands-equal-value'), ([o[0], a[1]], 'operands-equal-variance'), ([-a[0], a[1]], 'operands-opposite')):
            for op in ('e.add', 'e.sub', 'e.mul', 'e.div'):
                cs.append(Case('%s %s %s' % (op, frs(a), frs(b)), 'cmp', cls))
            cs.append(Case('o.c11.arith %s %s' % (frs(a), frs(b)), 'orc', cls))
        cs.append(Case('e.cmul %s' % frs(a + a + a + a), 'cmp', 'operands-equal'))
        cs.append(Case('e.cmul %s' % frs(a + o + a + o), 'cmp', 'operands-equal'))
    # divisors over the whole exponent range (double: 1e-150..1e150 keeps 1/x^4 out of reach of a naive x^4; float: 1e-18..1e18)
    for _ in range(max(10, n // 2)):
        ex = g.choice([g.r.uniform(-140, 140), g.r.uniform(-75, 75), g.r.uniform(70, 140), g.r.uniform(-140, -70), g.r.uniform(-9, 9), g.r.uniform(8, 9.5), g.r.uniform(-9.5, -8)])
        x = g.choice([-1, 1]) * g.r.uniform(1, 9.99) * 10 ** ex
        var = 10 ** (g.r.uniform(-3, 3) + 2 * ex); a = g.r.uniform(-3, 3); avar = g.r.uniform(0.01, 2)
        cs.append(Case('o.c11.range %s' % hexes([x, 0.0, var, 0.0, a, 0.0, avar, 0.0]), 'orc', 'inverse-exponent-range', check=small_hex_check(1e-9)))
    cs.append(Case('e.div 1 1/2 0 1/3', 'cmp', 'divide-by-zero'))
    cs.append(Case('e.inverse 0 1/3', 'cmp', 'divide-by-zero'))
    for f, dom in DOMAINS.items():
        for _ in range(n):
            x = dom(g); var = g.choice([0.0, 1e-12, g.r.uniform(0, 2), 10 ** g.r.uniform(-20, 10)])
            cs.append(Case('ef.%s %s' % (f, hexes([x, var])), 'cmp', 'function-' + f))
            if f == 'log' and x < 0: continue
            if var > 0: cs.append(Case('o.c11.deriv %s %s' % (f, hexes([x, var])), 'orc', 'derivative-' + f, check=small_hex_check(1e-6)))
    # the functions at exactly zero (both signs), where a table or a remembered argument would start
    for f in ('exp', 'sin', 'cos', 'acos', 'atan', 'sinh', 'cosh', 'atanh'):
        for x in (0.0, -0.0):
            cs.append(Case('ef.%s %s' % (f, hexes([x, g.choice([0.25, 1.0, g.r.uniform(0.1, 2)])])), 'cmp', 'function-at-zero'))
    for _ in range(n):
        s, c = g.r.uniform(-5, 5), g.r.uniform(-5, 5)
        if g.random() < 0.2: c = g.r.uniform(-1e-6, 1e-6)
        vs, vc = g.r.uniform(0, 2), g.r.uniform(0, 2)
        if g.random() < 0.3: vs = vc
        cs.append(Case('ef.atan2 %s' % hexes([s, vs, c, vc]), 'cmp', 'function-atan2'))
        if abs(c) > 1e-3 or abs(s) > 1e-3:
            cs.append(Case('o.c11.deriv2 %s' % hexes([s, vs, c, vc]), 'orc', 'derivative-atan2', check=small_hex_check(1e-6)))
        cu, cv = g.r.uniform(-5, 5), g.choice([-0.0, 0.0, -3.0, 2.0, -g.r.uniform(0.1, 9), g.r.uniform(0.1, 9)])
        cs.append(Case('ef.copysign %s' % hexes([cu, vs, cv, vc]), 'cmp', 'function-copysign', check=copysign_check(cu, vs, cv)))
        cs.append(Case('ef.arith %s' % hexes([g.r.uniform(-5, 5), vs, g.r.uniform(-5, 5), vc]), 'cmp', 'arith-double'))
        st = []
        I = 10 ** g.r.uniform(-3, 3)
        pq = [g.r.uniform(-1, 1) * I for _ in range(3)]
        for v in [I] + pq: st += [v, g.r.uniform(0, 0.3) * I]
        cs.append(Case('ef.invariant %s' % hexes(st), 'cmp', 'stokes-invariant'))
        cs.append(Case('o.c11.invariant %s' % hexes(st), 'orc', 'stokes-invariant', check=small_hex_check(1e-6)))
    return cs


C11 = dict(
    id='C11', module='EpsicProofs.Props.C11', gen=gen_C11,
    rule='Estimate<Rat>: sums, differences, products, quotients, inverse, negation, complex product on seeded rationals (exact '
         'comparison with the model and exact first-order oracle); Estimate<double>: every elementary function on its domain '
         '(near singular points of the derivative, tiny/huge, negative), compared bit for bit with the model run at Float over '
         'the same libm, and checked against a long-double central-difference derivative; bias-corrected Stokes invariant',
    trusted=['glibc libm (shared by harness and model driver)', 'long double central differences (oracle only)'],
    assumptions=['operands statistically independent (the rules are first order)', 'IEEE rounding of the variance arithmetic not proved'],
    partial='atan2 at the origin (not differentiable there; the theorems cover c != 0 and s != 0); floating-point rounding',
)


# ------------------------------------------------------------------------------------------ C12

def trees(items):
    """all binary merge trees over a list of leaf indices, prefix-encoded"""
    if len(items) == 1: return ['L %d' % items[0]]
    res = []
    for k in range(1, len(items)):
        for l in trees(items[:k]):
            for r in trees(items[k:]):
                res.append('N %s %s' % (l, r))
    return res


def est_seq(g, n):
    vals = []
    for _ in range(n):
        v = g.rat()
        k = g.random()
        var = F(0) if k < 0.15 else (F(2) ** g.randint(-60, 60) if k < 0.35 else abs(g.nz()))
        vals += [v, var]
    return vals


def gen_C12(g, tier):
    cs = []
    nseq = 6 if tier == 'quick' else 60
    nmax = 5 if tier == 'quick' else 6
    for n in range(0, nmax + 1):
        for _ in range(nseq if n < nmax else max(1, nseq // 3)):
            vals = est_seq(g, n)
            cs.append(Case('o.c12.orders %d %s' % (n, frs(vals)), 'orc', 'all-orders-n%d' % n, check=orders_check))
            cs.append(Case('me.fold %d %s' % (n, frs(vals)), 'cmp', 'fold-n%d' % n))
            if 1 <= n <= 4:
                for perm in itertools.permutations(range(n)):
                    for t in trees(list(perm))[:5]:
                        cs.append(Case('me.tree %d %s %s' % (n, frs(vals), t), 'cmp', 'tree-n%d' % n))
    # assignment in the middle of a history (zero-variance items included: they are skipped by += but an assignment still resets)
    for _ in range(12 if tier == 'quick' else 300):
        n = g.randint(2, 6); k = g.randint(1, n - 1); vals = est_seq(g, n)
        if g.random() < 0.5: vals[2 * k + 1] = F(0)          # the assigned estimate has zero variance
        for mode in (0, 1, 2):
            cs.append(Case('o.c12.assign %d %d %d %s' % (n, k, mode, frs(vals)), 'orc', 'assignment-forgets-history'))
    for _ in range(3 if tier == 'quick' else 40):
        n = g.randint(50, 400 if tier == 'quick' else 2000)
        cs.append(Case('me.fold %d %s' % (n, frs(est_seq(g, n))), 'cmp', 'long-sequence'))
    cs.append(Case('me.fold 0', 'cmp', 'empty'))
    # circular means (double)
    specials = [0.0, math.pi / 2, math.pi, -math.pi / 2, 3 * math.pi / 2, math.pi / 4, 2 * math.pi, 1e-9]
    for _ in range(40 if tier == 'quick' else 800):
        n = g.randint(1, 6)
        ang = []
        for _ in range(n):
            k = g.random()
            if k < 0.3: a = g.choice(specials)
            elif k < 0.4: a = math.nextafter(g.choice(specials), g.choice([-10, 10]))
            elif k < 0.6: a = g.choice([math.pi, -math.pi]) + g.r.uniform(-0.2, 0.2)     # straddling the wrap-around
            else: a = g.r.uniform(-7, 7)
            ang += [a, g.choice([0.0, 1.0, g.r.uniform(0.01, 2), 10 ** g.r.uniform(-6, 3)])]
        cs.append(Case('mr.fold %d %s' % (n, hexes(ang)), 'cmp', 'circular-fold'))
        if n >= 2:
            k = g.randint(1, n - 1)
            cs.append(Case('mr.merge %d %d %s' % (k, n - k, hexes(ang)), 'cmp', 'circular-merge'))
        cs.append(Case('o.c12.direction %d %s' % (n, hexes(ang)), 'orc', 'circular-direction', check=direction_check))
        # mirror-symmetric pair (and repeated copies of it): the sines cancel exactly, the direction is that of the vector sum
        a = g.choice([3.0, 2.5, 0.5, 1.0, 2.0, g.r.uniform(0.05, 3.1)]); v = g.choice([1.0, 0.01, g.r.uniform(0.01, 2)]); copies = g.choice([1, 1, 2, 3])
        cs.append(Case('o.c12.mirror %d %s' % (2 * copies, hexes([a, v, -a, v] * copies)), 'orc', 'circular-mirror-pair', check=direction_check))
        cs.append(Case('o.c12.circ %d %s' % (n, hexes(ang)), 'orc', 'circular-all-orders', check=small_hex_check(1e-9)))
        if n >= 2:
            k = g.randint(1, n - 1)
            cs.append(Case('o.c12.rcopy %d %d %s' % (k, n - k, hexes(ang)), 'orc', 'circular-copy-assignment-after-query'))
            cs.append(Case('o.c12.rcopy %d 0 %s' % (n, hexes(ang)), 'orc', 'circular-copy-assignment-after-query'))
            cs.append(Case('o.c12.rassign %d %d %s' % (n, k, hexes(ang)), 'orc', 'circular-assignment-forgets-history'))
        # new contents that are the mirror image of the old (angles negated, variances kept): every even function of the
        # angles (the weights among them) is unchanged bit for bit, the direction is not
        mir = [(-x if i % 2 == 0 else x) for i, x in enumerate(ang)]
        cs.append(Case('o.c12.rcopy %d %d %s' % (n, n, hexes(ang + mir)), 'orc', 'circular-copy-assignment-of-mirrored-contents'))
        cs.append(Case('o.c12.rassign 2 1 %s' % hexes(ang[:2] + [-ang[0], ang[1]]), 'orc', 'circular-assignment-of-mirrored-estimate'))
    # an accumulator merged with itself up to 70 times (2^70 entries): counts far beyond any integer type
    for _ in range(6 if tier == 'quick' else 100):
        n = g.randint(1, 4); ang = []
        for _ in range(n): ang += [g.r.uniform(-3, 3), g.choice([1.0, 0.5, g.r.uniform(0.01, 2)])]
        for k in (g.choice([1, 2, 5]), 31, 32, 33, 40, 64, 70):
            cs.append(Case('o.c12.doubling %d %d %d %s' % (k, g.randint(0, 1), n, hexes(ang)), 'orc', 'self-merge-%s' % ('to-2^32-and-beyond' if k >= 31 else 'few')))
    return cs


def orders_check(vals, line):
    t = line.split()
    if not t or t[0] != 'ok': return 'error result ' + line[:80]
    nums = [x for x in t[1:] if not x.startswith('#')]
    bad = [i for i, x in enumerate(nums) if F(x) != 0]
    if bad: return 'some permutation / merge tree (or the closed form) disagrees: outputs %s' % bad
    return None


def direction_check(vals, line):
    t = line.split()
    if not t or t[0] != 'ok': return 'error result ' + line[:80]
    diff, norm = hexd(t[1]), hexd(t[2])
    if norm < 1e-6: return None            # vector sum (nearly) vanishes: direction undefined
    if not (diff <= 1e-9): return 'circular mean differs from the direction of the weighted vector sum by %g rad' % diff
    return None


C12 = dict(
    id='C12', module='EpsicProofs.Props.C12', gen=gen_C12,
    rule='MeanEstimate<Rat>: for every generated sequence of length 0..5 (thorough: 6) ALL permutations and ALL binary merge '
         'trees are evaluated on the implementation (exhaustive: n!*Catalan(n-1) accumulators per sequence) and compared with '
         'the closed form; explicit folds/trees and long sequences (up to 2000 entries, variances 2^-60..2^60, zero-variance '
         'entries) are compared exactly with the model; MeanRadian<double> folds and merges are compared bit for bit with the '
         'model at Float (angles at exact and ±1ulp multiples of pi/2, straddling ±pi); direction oracle vs weighted vector sum',
    exhaustive=False,
    trusted=['GMP exact rationals', 'glibc libm shared by harness and model'],
    assumptions=['order/grouping independence of MeanRadian holds exactly over the reals and to rounding in double'],
    partial='the direction clause of the circular mean is refuted on the current code (known finding); floating-point rounding',
)

SPECS = {'C11': C11, 'C12': C12}
