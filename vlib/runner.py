"""Decide one property: obligations (Lean build + audit) -> correspondence (model driver vs
implementation harness on the same lines) -> oracle on the implementation -> search -> verdict."""
import json, os, re, sys, time
from fractions import Fraction
from . import core
from .core import log


class Case:
    """one protocol line.  kind 'cmp': model and implementation outputs must be identical.
    kind 'orc': implementation only; `check(vals, line)` returns None when the property holds on
    this input, else a description (default: every output value must be zero)."""
    __slots__ = ('line', 'kind', 'tag', 'check', 'nontrivial')

    def __init__(self, line, kind='cmp', tag='', check=None, nontrivial=True):
        self.line, self.kind, self.tag, self.check, self.nontrivial = line, kind, tag, check, nontrivial


_HEX16 = re.compile(r'^[0-9a-f]{16}$')


def canon(line):
    """canonical form of an output line for comparison: every NaN bit pattern is the same value"""
    if 'f' not in line and '7' not in line: return line
    toks = line.split(' ')
    for i, t in enumerate(toks):
        if _HEX16.match(t):
            u = int(t, 16)
            if (u & 0x7ff0000000000000) == 0x7ff0000000000000 and (u & 0xfffffffffffff): toks[i] = 'nan'
    return ' '.join(toks)


def all_zero(vals, line):
    if vals is None: return 'error result'
    bad = [i for i, v in enumerate(vals) if v != 0]
    return None if not bad else 'non-zero residual at output positions %s' % bad[:6]


def load_known():
    p = os.path.join(core.VERIF, 'known_findings.json')
    if not os.path.exists(p): return []
    return json.load(open(p)).get('findings', [])


def known_match(known, pid, line):
    for k in known:
        if k.get('property') == pid and k.get('status', 'open') == 'open' and re.search(k['match'], line):
            return k
    return None


def shrink(exe_cmd, case, still_fails, budget=120):
    """greedy token simplification of a failing oracle line"""
    toks = case.line.split()
    cand = ['0', '1', '-1', '2', '1/2']
    t0 = time.time()
    changed = True
    while changed and time.time() - t0 < budget:
        changed = False
        for i in range(1, len(toks)):
            if not re.match(r'^-?\d+(/\d+)?$', toks[i]) or len(toks[i]) == 16 or toks[i] in cand[:2]: continue
            trial_lines = []
            # plain non-negative integers are usually structural (sizes, counts): never make them negative or fractional
            cands = ['1', '2'] if toks[i].isdigit() else cand
            for c in cands:
                if c == toks[i]: continue
                t = list(toks); t[i] = c; trial_lines.append(' '.join(t))
            try:
                outs = core.run_lines(exe_cmd, trial_lines, timeout=20)
            except Exception:
                continue
            for tl, o in zip(trial_lines, outs):
                if not o.startswith('err protocol') and not o.startswith('err unknown') and still_fails(tl, o):
                    toks = tl.split(); changed = True; break
    return ' '.join(toks)


def minimise_sequence(exe_cmd, prefix, line, icanon=None, budget=60, differs=None):
    """shortest found sub-sequence of `prefix` after which `line` answers differently than in a fresh process (None if the
    difference does not reproduce).  `differs(out)`, when given, replaces the comparison with the answer of a fresh process."""
    def out_after(seq):
        o = core.run_lines(exe_cmd, list(seq) + [line], timeout=600)
        r = o[len(seq)] if len(o) > len(seq) else 'err no-output'
        r = canon(icanon(r, line) if icanon else r)
        return ('bad' if differs(r) else 'good') if differs else r
    alone = out_after([])
    if out_after(prefix) == alone: return None
    t0 = time.time(); seq = list(prefix); chunk = max(1, len(seq) // 2)
    while chunk >= 1 and time.time() - t0 < budget:
        i = 0; progressed = False
        while i < len(seq) and time.time() - t0 < budget:
            trial = seq[:i] + seq[i + chunk:]
            if out_after(trial) != alone: seq = trial; progressed = True
            else: i += chunk
        if chunk == 1 and not progressed: break
        chunk = chunk // 2 if chunk > 1 else (1 if progressed else 0)
    return seq


def check_obligations(spec, tier, broken):
    """Lean build of the property module + driver, forbidden-construct grep, #print axioms, leanchecker (thorough)"""
    pid = spec['id']
    module = spec['module']
    ok, out, t_build = core.lean_build([module, 'epsic_driver'])
    if not ok:
        broken.append('lake build %s: %s' % (module, out[-800:]))
    thms = core.theorems_of(module)
    hits = core.audit_sources()
    if hits: broken.append('forbidden construct in Lean sources: %s' % hits[:5])
    per_axioms, probs = ({}, [])
    if ok:
        per_axioms, probs = core.axioms_audit(module, thms)
        for p in probs: broken.append('axiom audit: ' + p)
    missing = [t for t in spec.get('required_theorems', []) if t not in thms]
    for t in missing: broken.append('required theorem missing: ' + t)
    checker_note = None
    if tier == 'thorough' and ok:
        cok, cout = core.leanchecker(module)
        checker_note = 'leanchecker %s: %s' % (module, 'ok' if cok else cout)
        if not cok: broken.append(checker_note)
    discharged = len([t for t in thms if t in per_axioms and all(a in core.ALLOWED_AXIOMS for a in per_axioms[t])])
    log('%s: %d theorems, %d discharged, lean build %.1fs' % (pid, len(thms), discharged, t_build))
    return ok, thms, discharged, per_axioms, checker_note


def decide(spec, group, tier, seed, replay=None):
    t_start = time.time()
    pid = spec['id']
    os.makedirs(os.path.join(core.VERIF, 'evidence'), exist_ok=True)
    os.makedirs(os.path.join(core.VERIF, 'replays'), exist_ok=True)
    known = load_known()
    broken = []          # names of obligations / correspondences that no longer check
    notes = []

    module = spec['module']
    ok, thms, discharged, per_axioms, checker_note = check_obligations(spec, tier, broken)

    # ---- 2. correspondence + oracle ----------------------------------------------------------
    gen = core.Gen(seed)
    if replay:
        rj = json.load(open(replay))
        from .props_mixed import halves_equal_tokens
        # the acceptance test of a replayed line is the one it was generated with: regenerate the case lists of the recorded
        # seed and tier (main list, the search lists, the lists of the other harness groups) and look the line up; a shrunk
        # line takes the test of the line it was shrunk from
        origin = {}
        try:
            rs, rt = int(rj.get('seed', seed)), rj.get('tier', tier)
            pools = [spec['gen'](core.Gen(rs), rt)] if 'gen' in spec else []
            for s2 in range(1, 4): pools.append(spec['gen'](core.Gen(rs * 1000 + s2), 'quick' if rt == 'quick' else 'thorough'))
            for xg, xgen in spec.get('extra', []): pools.append(xgen(core.Gen(rs + 17), rt))
            for pool in pools:
                for c in pool: origin.setdefault(c.line, c)
        except Exception as e:
            notes.append('could not regenerate the case lists for the replay: %r' % e)
        parents = rj.get('shrunk_from', {})
        def replay_case(l):
            o = origin.get(l) or origin.get(parents.get(l, ''))
            if o is not None: return Case(l, kind=o.kind, tag='replay', check=o.check)
            return Case(l, kind=('orc' if l.split()[0].startswith(('o.', 'mp.')) else 'cmp'), tag='replay',
                        check=(halves_equal_tokens if l.startswith('mp.') else spec.get('replay_check')))
        cases = [replay_case(l) for l in rj['lines']]
    else:
        cases = []
        corpus_dir = os.path.join(core.VERIF, 'corpus', pid)
        if os.path.isdir(corpus_dir):
            for f in sorted(os.listdir(corpus_dir)):
                for l in open(os.path.join(corpus_dir, f)):
                    l = l.strip()
                    if l and not l.startswith('#'):
                        cases.append(Case(l, kind=('orc' if l.split()[0].startswith('o.') else 'cmp'), tag='corpus',
                                          check=spec.get('replay_check')))
        cases += spec['gen'](gen, tier)

    impl_out, model_out = {}, {}
    shrunk_from = {}
    order_fails = []
    ndebug_fails = []
    thread_fails = []
    corr_breaks, orc_fails, known_hits = [], [], []
    harness_note = None
    with core.Scratch() as scr:
        exe, err, t_h = core.build_harness(scr, group['name'], group['sources'], group.get('repo_sources', ()),
                                           group.get('flags', ()), group.get('libs', ('-lgmpxx', '-lgmp')))
        if exe is None:
            broken.append('harness %s does not compile against the working tree: %s' % (group['name'], (err or '')[-1200:]))
            harness_note = 'harness build failed'
        else:
            hcmd = [exe]
            lines = [c.line for c in cases]
            t0 = time.time()
            iout = core.run_lines(hcmd, lines)
            t_impl = time.time() - t0
            cmp_idx = [i for i, c in enumerate(cases) if c.kind == 'cmp']
            t0 = time.time()
            mout = core.run_lines([core.driver_exe(), group['driver']], [lines[i] for i in cmp_idx]) if ok and cmp_idx else []
            t_model = time.time() - t0
            log('%s: %d lines; implementation %.1fs (harness build %.1fs), model %.1fs' % (pid, len(lines), t_impl, t_h, t_model))
            mcanon = spec.get('model_canon') or (lambda l: l)
            for j, i in enumerate(cmp_idx):
                model_out[i] = (mcanon(mout[j]) if j < len(mout) else 'err no-output')
                if spec.get('impl_canon'): model_out[i] = spec['impl_canon'](model_out[i], cases[i].line)
            xprefixes = tuple(x for xg, _ in spec.get('extra', []) for x in ((xg.get('replay_prefix', 'mp.'),) if isinstance(xg.get('replay_prefix', 'mp.'), str) else tuple(xg.get('replay_prefix'))))
            for i, c in enumerate(cases):
                if replay and xprefixes and c.line.startswith(xprefixes): continue      # belongs to another harness group (run below)
                impl_out[i] = iout[i] if i < len(iout) else 'err no-output'
                if spec.get('impl_canon'): impl_out[i] = spec['impl_canon'](impl_out[i], c.line)
                if c.kind == 'cmp':
                    if ok and canon(impl_out[i]) != canon(model_out[i]):
                        k = known_match(known, pid, c.line)
                        if k: known_hits.append((k, c.line))
                        else: corr_breaks.append(i)
                    if c.check:
                        why = c.check(core.parse_vals(impl_out[i]), impl_out[i])
                        if why:
                            k = known_match(known, pid, c.line)
                            if k: known_hits.append((k, c.line))
                            else: orc_fails.append((i, why))
                else:
                    chk = c.check or all_zero
                    why = chk(core.parse_vals(impl_out[i]), impl_out[i])
                    if why:
                        k = known_match(known, pid, c.line)
                        if k: known_hits.append((k, c.line))
                        else: orc_fails.append((i, why))

            # ---- 2a. failures that depend on what the process did before ------------------------------
            # an oracle line that fails in the run but passes on its own in a fresh process fails because of state left by earlier
            # lines: the replay needs the (minimised) preceding sequence
            if not replay:
                for i, why in orc_fails[:3]:
                    c = cases[i]
                    if i >= len(lines): continue
                    chk = c.check or all_zero
                    alone = core.run_lines(hcmd, [c.line])[0]
                    if spec.get('impl_canon'): alone = spec['impl_canon'](alone, c.line)
                    if not chk(core.parse_vals(alone), alone):
                        seq = minimise_sequence(hcmd, lines[:i], c.line, spec.get('impl_canon'))
                        if seq is not None:
                            order_fails.append({'line': c.line, 'alone': alone, 'after_sequence': impl_out.get(i, ''), 'sequence': seq})

            # ---- 2b. order independence ------------------------------------------------------------
            # every line is self-contained: what the process did before must not change its answer (function-local statics,
            # memo tables, caches keyed too coarsely, state initialised by the first request).  The lines run a second time in
            # a fresh process, in another order; a line whose answer differs is reported with the sequence that precedes it.
            if not replay and not spec.get('no_order_check') and len(lines) > 1:
                import random as _random
                perm = list(range(len(lines))); _random.Random(seed * 7919 + 13).shuffle(perm)
                heavy = spec.get('order_skip_prefix')
                if heavy: perm = [i for i in perm if not lines[i].startswith(heavy)]
                lines2 = [lines[i] for i in perm]
                t0 = time.time(); iout2 = core.run_lines(hcmd, lines2); t_order = time.time() - t0
                icanon = spec.get('impl_canon')
                for k, i in enumerate(perm):
                    o2 = iout2[k] if k < len(iout2) else 'err no-output'
                    if icanon: o2 = icanon(o2, lines[i])
                    if canon(o2) != canon(impl_out.get(i, '')) and not known_match(known, pid, lines[i]):
                        seq = minimise_sequence(hcmd, lines2[:k], lines[i], icanon)
                        if seq is None: continue           # not reproducible from a fresh process: not an order effect of the code
                        order_fails.append({'line': lines[i], 'alone': impl_out.get(i, ''), 'after_sequence': o2, 'sequence': seq})
                        orc_fails.append((i, 'the answer depends on what the process did before: alone %s, after %d other line(s) %s'
                                          % (impl_out.get(i, '')[:120], len(seq), o2[:120])))
                        if len(order_fails) >= 3: break
                notes.append('order pass: %d lines re-run in another order in %.1fs, %d order-dependent' % (len(lines2), t_order, len(order_fails)))

            # ---- 2c. independence of the caller's NDEBUG ----------------------------------------------
            # the templates live in headers and are compiled with the caller's flags: a caller that defines NDEBUG gets the same
            # answers (an assert whose expression has a side effect would not)
            if not replay and not spec.get('no_ndebug_check'):
              # (also: the caller's language standard.  The headers may test __cplusplus; a caller compiled as C++20 gets the same answers)
              for vname, vflags in (('-DNDEBUG', ('-DNDEBUG',)), ('-std=gnu++20', ('-std=gnu++20',))):
                exe_nd, err_nd, t_nd = core.build_harness(scr, group['name'], group['sources'], group.get('repo_sources', ()),
                                                          tuple(group.get('flags', ())) + vflags, group.get('libs', ('-lgmpxx', '-lgmp')))
                if exe_nd is None:
                    broken.append('harness %s does not compile with %s: %s' % (group['name'], vname, (err_nd or '')[-600:]))
                else:
                    t0 = time.time(); iout_nd = core.run_lines([exe_nd], lines); icanon = spec.get('impl_canon'); nfail = 0
                    for i, l in enumerate(lines):
                        o2 = iout_nd[i] if i < len(iout_nd) else 'err no-output'
                        if icanon: o2 = icanon(o2, l)
                        if canon(o2) != canon(impl_out.get(i, '')) and not known_match(known, pid, l):
                            ndebug_fails.append({'line': l, 'flags': list(vflags), 'assertions_enabled': impl_out.get(i, ''), 'NDEBUG': o2})
                            orc_fails.append((i, 'the answer depends on the caller\'s %s: without it %s, with it %s' % (vname, impl_out.get(i, '')[:120], o2[:120])))
                            nfail += 1
                            if nfail >= 3: break
                    notes.append('%s pass: %d lines re-run on a harness built with %s in %.1fs (build %.1fs), %d differ' % ('NDEBUG' if vname == '-DNDEBUG' else 'C++20', len(lines), vname, time.time() - t0, t_nd, nfail))

            # ---- 2d. independence of the calling thread ------------------------------------------------
            # every line again, each on a thread of its own inside a fresh harness process (started and joined per line: nothing
            # runs concurrently): per-thread state that only the first thread of a process initialises properly shows here
            if not replay and group.get('thread_mode') and not spec.get('no_thread_check'):
                t0 = time.time(); iout_th = core.run_lines(hcmd, lines, env={'EPSIC_HARNESS_THREAD': '1'}); icanon = spec.get('impl_canon')
                for i, l in enumerate(lines):
                    o2 = iout_th[i] if i < len(iout_th) else 'err no-output'
                    if icanon: o2 = icanon(o2, l)
                    if canon(o2) != canon(impl_out.get(i, '')) and not known_match(known, pid, l):
                        # does the line alone, as the first request of a second thread, already differ?  otherwise keep the (minimised)
                        # preceding lines: the difference needs something an earlier thread of the process did
                        tcmd = ['env', 'EPSIC_HARNESS_THREAD=1'] + list(hcmd); seq = []
                        a1 = core.run_lines(tcmd, [l])[0]
                        if icanon: a1 = icanon(a1, l)
                        if canon(a1) == canon(impl_out.get(i, '')):
                            want = canon(impl_out.get(i, ''))
                            seq = minimise_sequence(tcmd, lines[:i], l, icanon=icanon, differs=lambda r, want=want: r != want) or []
                        thread_fails.append({'line': l, 'main_thread': impl_out.get(i, ''), 'second_thread': o2, 'sequence': seq})
                        orc_fails.append((i, 'the answer depends on the calling thread: on the main thread %s, on a second thread %s' % (impl_out.get(i, '')[:120], o2[:120])))
                        if len(thread_fails) >= 3: break
                notes.append('thread pass: %d lines re-run each on a thread of its own in %.1fs, %d differ' % (len(lines), time.time() - t0, len(thread_fails)))

            # ---- 3. search when something no longer checks -------------------------------------
            if (broken or corr_breaks) and not orc_fails and not replay:
                log('%s: obligation/correspondence broken; searching for a failing input' % pid)
                extra = []
                for s2 in range(1, 4):
                    extra += [c for c in spec['gen'](core.Gen(seed * 1000 + s2), 'quick' if tier == 'quick' else 'thorough') if c.kind == 'orc' or c.check]
                    if len(extra) > 30000: break
                # oracle versions of the disagreeing lines first, if the property offers a targeted search
                if 'targeted' in spec:
                    extra = spec['targeted']([cases[i].line for i in corr_breaks[:50]], core.Gen(seed + 7)) + extra
                eo = core.run_lines(hcmd, [c.line for c in extra])
                for c, o in zip(extra, eo):
                    chk = c.check or all_zero
                    why = chk(core.parse_vals(o), o)
                    if why and not known_match(known, pid, c.line):
                        cases.append(c); impl_out[len(cases) - 1] = o
                        orc_fails.append((len(cases) - 1, why))
                        if len(orc_fails) >= 5: break
                notes.append('search ran %d additional oracle cases' % len(extra))

            # shrink the first oracle failure
            # shrinking is opt-in (spec['shrink']): a simplified line can leave the domain on which the oracle is valid (a
            # singular matrix, a quadrature with too few nodes), and would then fail on correct code as well
            if orc_fails and not replay and spec.get('shrink') and not spec.get('no_shrink') and not cases[orc_fails[0][0]].line.startswith('mp.'):
                i, why = orc_fails[0]
                c = cases[i]
                chk = c.check or all_zero
                try:
                    o0 = impl_out.get(i, '')
                    same_kind = (lambda o: o.startswith('ok')) if o0.startswith('ok') else (lambda o: o.split()[:2] == o0.split()[:2])
                    small = shrink(hcmd, c, lambda l, o: same_kind(o) and bool(chk(core.parse_vals(o), o)) and not known_match(known, pid, l))
                    if small != c.line:
                        o = core.run_lines(hcmd, [small])[0]
                        cases.append(Case(small, 'orc', 'shrunk', c.check)); impl_out[len(cases) - 1] = o
                        shrunk_from[small] = c.line
                        orc_fails.insert(0, (len(cases) - 1, chk(core.parse_vals(o), o)))
                except Exception as e:  # shrinking is best effort
                    notes.append('shrink failed: %r' % e)

    # ---- replay of recorded order dependences ---------------------------------------------------
    if replay and rj.get('ndebug_dependence'):
        with core.Scratch() as scr:
            e1, _, _ = core.build_harness(scr, group['name'], group['sources'], group.get('repo_sources', ()), group.get('flags', ()), group.get('libs', ('-lgmpxx', '-lgmp')))
            builds = {}
            for x in rj['ndebug_dependence']:
                fl = tuple(x.get('flags') or ['-DNDEBUG'])
                if fl not in builds: builds[fl] = core.build_harness(scr, group['name'], group['sources'], group.get('repo_sources', ()), tuple(group.get('flags', ())) + fl, group.get('libs', ('-lgmpxx', '-lgmp')))[0]
            if e1 and all(builds.values()):
                nl = [x['line'] for x in rj['ndebug_dependence']]; icanon = spec.get('impl_canon')
                o1 = core.run_lines([e1], nl); o2 = [core.run_lines([builds[tuple(x.get('flags') or ['-DNDEBUG'])]], [x['line']])[0] for x in rj['ndebug_dependence']]
                for l, a, b in zip(nl, o1, o2):
                    if icanon: a, b = icanon(a, l), icanon(b, l)
                    if canon(a) != canon(b):
                        cases.append(Case(l, 'orc', 'ndebug')); impl_out[len(cases) - 1] = b
                        orc_fails.append((len(cases) - 1, 'the answer depends on the flags the caller is compiled with (-DNDEBUG / -std=gnu++20): %s vs %s' % (a[:120], b[:120])))
    if replay and rj.get('thread_dependence'):
        with core.Scratch() as scr:
            e1, _, _ = core.build_harness(scr, group['name'], group['sources'], group.get('repo_sources', ()), group.get('flags', ()), group.get('libs', ('-lgmpxx', '-lgmp')))
            if e1:
                nl = [x['line'] for x in rj['thread_dependence']]; icanon = spec.get('impl_canon')
                o1 = core.run_lines([e1], nl); o2 = []
                for x in rj['thread_dependence']:
                    sq = list(x.get('sequence') or [])
                    r = core.run_lines([e1], sq + [x['line']], env={'EPSIC_HARNESS_THREAD': '1'})
                    o2.append(r[len(sq)] if len(r) > len(sq) else 'err no-output')
                for l, a, b in zip(nl, o1, o2):
                    if icanon: a, b = icanon(a, l), icanon(b, l)
                    if canon(a) != canon(b):
                        cases.append(Case(l, 'orc', 'thread')); impl_out[len(cases) - 1] = b
                        orc_fails.append((len(cases) - 1, 'the answer depends on the calling thread: %s vs %s' % (a[:120], b[:120])))
    if replay:
        for od in rj.get('order_dependence', []):
            if 'extra' not in od: continue
            xg = spec.get('extra', [])[od['extra']][0] if od['extra'] < len(spec.get('extra', [])) else None
            if xg is None: continue
            with core.Scratch() as scr:
                exe, err, t_h = core.build_harness(scr, xg['name'], xg['sources'], xg.get('repo_sources', ()), xg.get('flags', ()),
                                                   xg.get('libs', ('-lgmpxx', '-lgmp')), sanitize=xg.get('sanitize', True))
                if exe is None: continue
                o = core.run_lines([exe], list(od['sequence']) + [od['line']]); r = o[len(od['sequence'])] if len(o) > len(od['sequence']) else 'err no-output'
                c0 = next((c for c in cases if c.line == od['line']), None)
                chk = (c0.check if c0 is not None and c0.check else all_zero)
                why = chk(core.parse_vals(r), r)
                if why:
                    cases.append(Case(od['line'], 'orc', 'sequence', chk)); impl_out[len(cases) - 1] = r
                    orc_fails.append((len(cases) - 1, 'after the recorded sequence of %d line(s): %s' % (len(od['sequence']), why)))
    if replay and [od for od in rj.get('order_dependence', []) if 'extra' not in od]:
        with core.Scratch() as scr:
            exe, err, t_h = core.build_harness(scr, group['name'], group['sources'], group.get('repo_sources', ()),
                                               group.get('flags', ()), group.get('libs', ('-lgmpxx', '-lgmp')))
            if exe is not None:
                icanon = spec.get('impl_canon')
                for od in [x for x in rj['order_dependence'] if 'extra' not in x]:
                    def out_after(seq, line=od['line']):
                        o = core.run_lines([exe], list(seq) + [line]); r = o[len(seq)] if len(o) > len(seq) else 'err no-output'
                        return canon(icanon(r, line) if icanon else r)
                    a, b = out_after([]), out_after(od['sequence'])
                    if a != b:
                        cases.append(Case(od['line'], 'orc', 'order')); impl_out[len(cases) - 1] = b
                        orc_fails.append((len(cases) - 1, 'the answer depends on what the process did before: alone %s, after the recorded sequence %s' % (a[:120], b[:120])))

    # ---- 3b. implementation-only oracles that live in another harness group ---------------------
    for xgroups_index, (xgroup, xgen) in enumerate(spec.get('extra', [])):
        with core.Scratch() as scr:
            exe, err, t_h = core.build_harness(scr, xgroup['name'], xgroup['sources'], xgroup.get('repo_sources', ()),
                                               xgroup.get('flags', ()), xgroup.get('libs', ('-lgmpxx', '-lgmp')), sanitize=xgroup.get('sanitize', True))
            if exe is None:
                broken.append('harness %s does not compile against the working tree: %s' % (xgroup['name'], (err or '')[-1200:]))
                continue
            xcases = xgen(core.Gen(seed + 17), tier) if not replay else [c for c in cases if c.line.startswith(xgroup.get('replay_prefix', 'mp.'))]
            xlines = [c.line for c in xcases]
            xo = core.run_lines([exe], xlines)
            # lines of this group that have a model: compared with the driver's answer
            xm = {}
            if xgroup.get('driver') and ok:
                cidx = [i for i, c in enumerate(xcases) if c.kind == 'cmp']
                if cidx:
                    mo = core.run_lines([core.driver_exe(), xgroup['driver']], [xlines[i] for i in cidx])
                    for j, i in enumerate(cidx): xm[i] = mo[j] if j < len(mo) else 'err no-output'
            for xi, (c, o) in enumerate(zip(xcases, xo)):
                if not replay:
                    cases.append(c); impl_out[len(cases) - 1] = o
                else:
                    impl_out[cases.index(c)] = o
                if xi in xm:
                    ci = cases.index(c)
                    model_out[ci] = xm[xi]
                    if canon(o) != canon(xm[xi]):
                        k = known_match(known, pid, c.line)
                        if k: known_hits.append((k, c.line))
                        elif ci not in corr_breaks: corr_breaks.append(ci)
                if c.kind == 'cmp' and not c.check: continue
                chk = c.check or all_zero
                why = chk(core.parse_vals(o), o)
                if why:
                    k = known_match(known, pid, c.line)
                    if k: known_hits.append((k, c.line)); continue
                    orc_fails.append((cases.index(c), why))
                    # does the line fail on its own, or only after what this process did before?  (then the replay needs the sequence)
                    if not replay and len([1 for od in order_fails if od.get('group') == xgroup['name']]) < 2:
                        alone = core.run_lines([exe], [c.line])[0]
                        if not chk(core.parse_vals(alone), alone):
                            seq = minimise_sequence([exe], xlines[:xi], c.line, differs=lambda r, chk=chk: bool(chk(core.parse_vals(r), r)))
                            if seq is not None:
                                order_fails.append({'group': xgroup['name'], 'extra': xgroups_index, 'line': c.line, 'alone': alone, 'after_sequence': o, 'sequence': seq})

    # ---- 4. verdict ----------------------------------------------------------------------------
    for k, line in known_hits[:0]: pass
    seen = set()
    for k, line in known_hits:
        if k['id'] in seen: continue
        seen.add(k['id'])
        print('KNOWN-FINDING: property=%s %s' % (pid, k['what']))
    violation = bool(broken or corr_breaks or orc_fails)
    replay_path = None
    if violation:
        replay_path = os.path.join(core.VERIF, 'replays', '%s-%s-seed%d.json' % (pid, tier, seed))
        fail_lines = [cases[i].line for i, _ in orc_fails[:5]] + [cases[i].line for i in corr_breaks[:20]]
        rj = {
            'property': pid, 'seed': seed, 'tier': tier,
            'failing_input_found': bool(orc_fails),
            'lines': fail_lines,
            'oracle_failures': [{'line': cases[i].line, 'implementation': impl_out.get(i), 'why': why} for i, why in orc_fails[:5]],
            'correspondence_breaks': [{'line': cases[i].line, 'implementation': impl_out.get(i), 'model': model_out.get(i)} for i in corr_breaks[:20]],
            'n_correspondence_breaks': len(corr_breaks),
            'no_longer_checks': broken + (['correspondence model=%s vs harness group %s (%d of %d compared lines differ)' %
                                            (module, group['name'], len(corr_breaks), len([c for c in cases if c.kind == 'cmp']))] if corr_breaks else []),
            'shrunk_from': shrunk_from,
            'order_dependence': order_fails,
            'ndebug_dependence': ndebug_fails,
            'thread_dependence': thread_fails,
            'replay_cmd': './check %s --replay %s' % (pid, replay_path),
        }
        json.dump(rj, open(replay_path, 'w'), indent=1)
        tail = '' if orc_fails else ' no-failing-input-found'
        print('VIOLATION property=%s replay=%s%s' % (pid, replay_path, tail))

    # ---- 5. evidence ----------------------------------------------------------------------------
    tags = {}
    for c in cases: tags[c.tag] = tags.get(c.tag, 0) + 1
    distinct = len(set(c.line for c in cases if c.nontrivial))
    err_kinds = {}
    for i, o in impl_out.items():
        if o.startswith('err'): err_kinds[o] = err_kinds.get(o, 0) + 1
    samples = []
    seen_tags = set()
    for i, c in enumerate(cases):
        if c.tag not in seen_tags and len(samples) < 8:
            seen_tags.add(c.tag); samples.append({'line': c.line[:400], 'kind': c.kind, 'implementation': impl_out.get(i, '')[:300]})
    ev = {
        'property_id': pid, 'tier': tier, 'seed': seed, 'level': 'proof',
        'coverage': {
            'obligations': max(len(thms), 1), 'discharged': discharged if not broken else min(discharged, max(len(thms) - 1, 0)),
            'checker_cmd': 'cd lean && lake build %s && lake env lean <#print axioms of every theorem in the module>%s' %
                           (module, ' && lake env leanchecker ' + module if tier == 'thorough' else ''),
            'trusted_base': spec.get('trusted', []) + ['Lean 4.33 kernel', 'Mathlib v4.33 modules imported by ' + module,
                                                       'axioms used: ' + ', '.join(sorted(set(a for v in per_axioms.values() for a in v)) or ['none']),
                                                       'hand-written model tied to the source by the differential run below (vlib/runner.py, harness/*.cpp, rat.h over GMP)'],
            'theorems': thms,
            'evaluations': len(cases), 'distinct_nontrivial': distinct,
            'compared_model_vs_implementation': len([c for c in cases if c.kind == 'cmp']),
            'oracle_on_implementation': len([c for c in cases if c.kind == 'orc']),
            'correspondence_disagreements': len(corr_breaks), 'oracle_failures': len(orc_fails),
            'known_findings_hit': sorted(seen),
            'rule': spec.get('rule', ''),
            'input_distribution': tags, 'implementation_error_kinds': err_kinds,
            'samples': samples, 'exhaustive': bool(spec.get('exhaustive', False)),
            'notes': notes + ([checker_note] if checker_note else []) + ([harness_note] if harness_note else []),
            'not_carried_by_theorems': spec.get('partial', ''),
        },
        'assumptions': spec.get('assumptions', []),
        'wall_s': round(time.time() - t_start, 2),
        'violations': (len(orc_fails) + len(corr_breaks) + len(broken)),
    }
    json.dump(ev, open(os.path.join(core.VERIF, 'evidence', pid + '.json'), 'w'), indent=1)
    log('%s: %s in %.1fs' % (pid, 'VIOLATION' if violation else 'ok', time.time() - t_start))
    return 1 if violation else 0
