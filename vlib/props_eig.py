"""Properties C09 (polar decomposition, Hermitian square root) and C10 (eigen-decompositions)
through harness group "eig"."""
import math
from fractions import Fraction as F
from .core import fr, frs, dhex, hexd
from .runner import Case

GROUP = dict(name='eig', sources=['h_eig.cpp'], repo_sources=['util/Pauli.C'], driver='eig', thread_mode=True)


def hexes(xs): return ' '.join(dhex(x) for x in xs)

QUADS = [(1, 0, 0, 1), (3, 1, 2, 2), (3, 2, 1, 2), (7, 2, 3, 6), (7, 6, 2, 3), (9, 1, 4, 8), (9, 4, 4, 7), (11, 2, 6, 9), (5, 0, 3, 4), (5, 4, 0, 3),
         (13, 3, 4, 12), (15, 2, 5, 14), (15, 2, 10, 11), (17, 1, 12, 12), (19, 1, 6, 18), (21, 4, 5, 20), (23, 3, 6, 22)]


def signed_quads(g):
    n, a, b, c = g.choice(QUADS)
    return n, [a * g.choice([1, -1]), b * g.choice([1, -1]), c * g.choice([1, -1])]


def flags_then_small(nflags, tol, ntol=None):
    """oracle output: `nflags` 0/1 flags that must all be 1, then hex doubles that must be <= tol"""
    def chk(vals, line):
        t = line.split()
        if not t or t[0] != 'ok': return 'error result ' + line[:80]
        t = t[1:]
        for i in range(nflags):
            if t[i] != '1': return 'flag %d is %s (expected 1: finite / positive semi-definite / ordered)' % (i, t[i])
        for i, h in enumerate(t[nflags:]):
            if len(h) != 16:
                if h != '1': return 'trailing flag %d is %s' % (i, h)
                continue
            x = hexd(h)
            if not (x <= tol): return 'residual %g exceeds %g at output %d' % (x, tol, nflags + i)
        return None
    return chk


# ------------------------------------------------------------------------------------------ C09

def exact_psd_square(g, singular=False):
    """h = r*r for a rational PSD r = (s, v): returns (h, r)"""
    n, d = signed_quads(g)
    lam = abs(g.nz())
    if singular:
        s = lam; v = [lam * F(x, n) for x in d]
    else:
        frac = F(g.randint(0, 9), 10)
        s = lam; v = [lam * frac * F(x, n) for x in d]
    vv = sum(x * x for x in v)
    return [s * s + vv] + [2 * s * x for x in v], [s] + v


def unit_hyperboloid(g):
    """rational (s, v) with s^2 - |v|^2 = 1, s > 0"""
    t = F(g.randint(0, 8), 9)
    n, d = signed_quads(g)
    s = (1 + t * t) / (1 - t * t); m = 2 * t / (1 - t * t)
    return [s] + [m * F(x, n) for x in d]


def unit_quaternion(g):
    q = [F(g.randint(-4, 4)) for _ in range(4)]
    if all(x == 0 for x in q): q[0] = F(1)
    a, b, c, d = q; n = a * a + b * b + c * c + d * d
    # q*q / |q|^2 in the unitary basis
    return [(a * a - b * b - c * c - d * d) / n, 2 * a * b / n, 2 * a * c / n, 2 * a * d / n]


def jones_from(dz, h, u):
    """d * convert(h) * convert(u) with exact rationals (complex numbers as (re, im) pairs)"""
    def cmul(x, y): return (x[0] * y[0] - x[1] * y[1], x[0] * y[1] + x[1] * y[0])
    def cadd(x, y): return (x[0] + y[0], x[1] + y[1])
    H = [[(h[0] + h[1], F(0)), (h[2], -h[3])], [(h[2], h[3]), (h[0] - h[1], F(0))]]
    U = [[(u[0], u[1]), (u[3], u[2])], [(-u[3], u[2]), (u[0], -u[1])]]
    out = []
    for i in range(2):
        for j in range(2):
            e = cadd(cmul(H[i][0], U[0][j]), cmul(H[i][1], U[1][j]))
            out += list(cmul(dz, e))
    return out


def boundary_family(g, n):
    """double Stokes-like quaternions with |v| = s up to rounding: Pythagorean quadruples times non-dyadic scalings"""
    res = []
    for _ in range(n):
        N, d = signed_quads(g)
        k = g.choice([0.1, 0.3, 1.0 / 3, 0.7, 1.1, math.pi, 1e-5 / 3, 1e7 / 7, g.r.uniform(0.1, 10)])
        res.append([k, k * d[0] / N, k * d[1] / N, k * d[2] / N])
        res.append([k * N / N, (k * d[0]) / N, (k * d[1]) / N, (k * d[2]) / N])
        res.append([1.0, d[0] / N, d[1] / N, d[2] / N])
    res.append([1.0, 0.6, 0.0, 0.8])
    return res


def gen_C09(g, tier):
    n = 40 if tier == 'quick' else 1500
    cs = []
    for i in range(n):
        h, r = exact_psd_square(g, singular=(i % 4 == 0))
        tag = 'exact-singular' if i % 4 == 0 else 'exact-psd'
        cs.append(Case('q.sqrt %s' % frs(h), 'cmp', tag))
        cs.append(Case('o.c09.sqrt %s' % frs(h), 'orc', tag))
        dz = (g.nz(), g.choice([F(0), g.nz()]))
        J = jones_from(dz, unit_hyperboloid(g), unit_quaternion(g))
        cs.append(Case('j.polar %s' % frs(J), 'cmp', 'exact-polar'))
        cs.append(Case('o.c09.polar %s' % frs(J), 'orc', 'exact-polar'))
    cs.append(Case('q.sqrt 0 0 0 0', 'cmp', 'zero'))
    cs.append(Case('o.c09.sqrt 0 0 0 0', 'orc', 'zero'))
    cs.append(Case('q.sqrt 1 3 0 0', 'cmp', 'not-psd'))
    cs.append(Case('j.polar 1 0 1 0 1 0 1 0', 'cmp', 'singular-jones'))
    # double: PSD quaternions incl. the boundary |v| = s at every rounding pattern these inputs produce
    dq = boundary_family(g, n)
    for _ in range(n):
        s = 10 ** g.r.uniform(-100, 100) if g.random() < 0.3 else g.r.uniform(0.01, 10)
        f = g.choice([0.0, 0.5, 0.999999, 1 - 1e-12, g.random()])
        th, ph = g.r.uniform(0, math.pi), g.r.uniform(0, 2 * math.pi)
        dq.append([s, s * f * math.sin(th) * math.cos(ph), s * f * math.sin(th) * math.sin(ph), s * f * math.cos(th)])
    # weakly polarised: |v|/s from 1e-15 to 1e-6 (|v|^2 vanishes against s^2 in the determinant, not in the root)
    weak = []
    for _ in range(max(10, n // 4)):
        s = 10 ** g.r.uniform(-50, 50) if g.random() < 0.3 else g.r.uniform(0.01, 10)
        f = 10 ** g.r.uniform(-15, -6)
        th, ph = g.r.uniform(0, math.pi), g.r.uniform(0, 2 * math.pi)
        weak.append([s, s * f * math.sin(th) * math.cos(ph), s * f * math.sin(th) * math.sin(ph), s * f * math.cos(th)])
    dq += weak
    dq.append([0.0, 0.0, 0.0, 0.0])
    for q in dq:
        p = math.sqrt(q[1] ** 2 + q[2] ** 2 + q[3] ** 2)
        det = q[0] * q[0] - q[1] * q[1] - q[2] * q[2] - q[3] * q[3]
        tag = 'double-det-negative' if det < 0 else ('double-det-zero' if det == 0 else 'double-psd')
        if any(q is w for w in weak): tag = 'double-weakly-polarised'
        cs.append(Case('qd.sqrt %s' % hexes(q), 'cmp', tag))
        cs.append(Case('o.c09.sqrtd %s' % hexes(q), 'orc', tag, check=flags_then_small(2, 1e-12)))
    # single and extended precision: inputs that are exactly PSD as floats (and hence as long doubles), singular ones included
    import struct
    def f32(x):
        try: return struct.unpack('<f', struct.pack('<f', x))[0]
        except OverflowError: return math.inf
    cnt = 0
    for q in dq:
        qf = [f32(x) for x in q]
        if not all(math.isfinite(x) for x in qf) or not (1e-15 < abs(qf[0]) < 1e15): continue
        if F(qf[0]) < 0 or F(qf[0]) ** 2 < F(qf[1]) ** 2 + F(qf[2]) ** 2 + F(qf[3]) ** 2: continue
        cs.append(Case('o.c09.sqrtf %s' % hexes(qf), 'orc', 'float-and-longdouble-psd', check=flags_then_small(2, 1e-12)))
        cnt += 1
        if cnt >= (60 if tier == 'quick' else 2000): break
    # double: polar decomposition over structure classes and condition numbers
    for _ in range(n):
        kind = g.choice(['random', 'hermitian', 'unitary', 'diagonal', 'triangular', 'negdet', 'imagdet', 'illcond', 'nearunitary', 'nearnegdet', 'nearnegdet'])
        if _ % 4 == 1: kind = 'nearunitary'          # a quarter of the cases: boosts of 1e-14..1e-6 on a scaled unitary matrix
        a = [g.r.uniform(-2, 2) for _ in range(8)]
        if kind == 'hermitian': a = [abs(a[0]) + 3, 0, a[2], a[3], a[2], -a[3], abs(a[6]) + 3, 0]
        elif kind == 'unitary':
            th, ph = g.r.uniform(0, 6.28), g.r.uniform(0, 6.28)
            a = [math.cos(th) * math.cos(ph), math.cos(th) * math.sin(ph), math.sin(th), 0, -math.sin(th), 0, math.cos(th) * math.cos(ph), -math.cos(th) * math.sin(ph)]
        elif kind == 'nearunitary':   # a complex scalar times a boost of 1e-14..1e-6 times a unitary matrix
            th, ph, b, c = g.r.uniform(0, 6.28), g.r.uniform(0, 6.28), 10 ** g.r.uniform(-14, -6), complex(g.r.uniform(-2, 2), g.r.uniform(0.5, 2))
            u = [[complex(math.cos(th) * math.cos(ph), math.cos(th) * math.sin(ph)), complex(math.sin(th), 0)], [complex(-math.sin(th), 0), complex(math.cos(th) * math.cos(ph), -math.cos(th) * math.sin(ph))]]
            m = [[c * (1 + b) * u[0][0], c * (1 + b) * u[0][1]], [c * (1 - b) * u[1][0], c * (1 - b) * u[1][1]]]
            a = [m[0][0].real, m[0][0].imag, m[0][1].real, m[0][1].imag, m[1][0].real, m[1][0].imag, m[1][1].real, m[1][1].imag]
        elif kind == 'nearnegdet':   # determinant within 1e-13..1e-7 (in argument) of the negative real axis, on either side
            import cmath
            m = [[complex(a[0], a[1]), complex(a[2], a[3])], [complex(a[4], a[5]), complex(a[6], a[7])]]
            if g.random() < 0.5: m = [[complex(g.r.uniform(0.5, 2), 0), 0j], [0j, complex(g.r.uniform(0.5, 2), 0)]]
            det = m[0][0] * m[1][1] - m[0][1] * m[1][0]
            if abs(det) > 0.05:
                delta = g.choice([-1, 1]) * 10 ** g.r.uniform(-13, -7)
                ph = cmath.exp(0.5j * (math.pi + delta - cmath.phase(det)))
                m = [[z * ph for z in row] for row in m]
            a = [m[0][0].real, m[0][0].imag, m[0][1].real, m[0][1].imag, m[1][0].real, m[1][0].imag, m[1][1].real, m[1][1].imag]
        elif kind == 'diagonal': a = [a[0], a[1], 0, 0, 0, 0, a[6], a[7]]
        elif kind == 'triangular': a = [a[0], a[1], a[2], a[3], 0, 0, a[6], a[7]]
        elif kind == 'negdet': a = [1.5, 0, 0.2, 0, 0.1, 0, -2.0, 0]
        elif kind == 'imagdet': a = [0, 1.5, 0.2, 0, 0.1, 0, 2.0, 0]
        elif kind == 'illcond':
            k = 10 ** g.r.uniform(0.5, 3)
            a = [k, 0, a[2], a[3], a[4], a[5], 1 / k, 0]
        # element scales over the whole range in which det J = O(scale^2) is representable (the decomposition is scale-free)
        k = g.random()
        scale = 10 ** g.r.uniform(-20, 20) if k < 0.3 else (g.choice([1e90, 1e-90, 1e120, 1e-120, 1e60, 1e-60, 2.0 ** 400, 2.0 ** -400]) if k < 0.45 else 1.0)
        a = [x * scale for x in a]
        cs.append(Case('o.c09.polard %s' % hexes(a), 'orc', 'double-polar-' + kind, check=flags_then_small(1, 1e-12)))
    # the process-wide polarisation basis set to circular / elliptical while polar, sqrt and eigen are called
    for _ in range(8 if tier == 'quick' else 200):
        a = [g.r.uniform(-2, 2) for _ in range(8)]
        b = g.choice(['cir', 'ell %s %s' % (dhex(g.r.uniform(-1.5, 1.5)), dhex(g.r.uniform(-0.7, 0.7))), 'ell %s %s' % (dhex(0.25 * math.pi), dhex(0.25 * math.pi))])
        cs.append(Case('o.c09.polarb %s %s' % (b, hexes(a)), 'orc', 'basis-set-to-non-linear'))
    return cs


C09 = dict(
    id='C09', module='EpsicProofs.Props.C09', gen=gen_C09,
    rule='exact: Hermitian quaternions constructed as squares of rational PSD quaternions (one in four singular, |v| = s, from '
         'Pythagorean quadruples) and Jones matrices d*h*u assembled from rational d, a rational point of the unit hyperboloid '
         'and a rational unit quaternion, so that every root is rational; double: PSD quaternions over 200 decades, the '
         'boundary family |v| = s from Pythagorean quadruples times non-dyadic scalings (the evidence reports how often the '
         'computed determinant was negative, zero, positive), Jones matrices of eight structure classes incl. condition '
         'numbers to 1e6 (beyond about 1e7, eps*kappa^2 reaches 1 and double precision cannot resolve the Hermitian factor); reconstruction residual scaled by kappa^2',
    trusted=['GMP exact rationals', 'glibc sqrt / csqrt'],
    assumptions=['the kappa^2 error bound is explored, not proved'],
    partial='rounding-error magnitude of the reconstruction; double-precision polar is checked by the oracle only (libstdc++ complex division is not modelled)',
)


# ------------------------------------------------------------------------------------------ C10

def eigen_exact_inputs():
    """integer (a,b,c) with p = |(a,b,c)| integer and 2p(p+a), 2p(p-a) perfect squares where needed"""
    res = []
    for a in range(-12, 13):
        for b in range(-12, 13):
            for c in range(-12, 13):
                pp = a * a + b * b + c * c
                p = math.isqrt(pp)
                if p * p != pp or p == 0: continue
                arg = 2 * p * (p - a) if a < 0 else 2 * p * (p + a)
                r = math.isqrt(arg)
                if r * r == arg and arg > 0: res.append((a, b, c))
    return res


EIG_EXACT = eigen_exact_inputs()


def sym_matrix(g, n, cls):
    """upper triangle (row-major) of a symmetric matrix of the given structure class"""
    up = {}
    for i in range(n):
        for j in range(i, n):
            if cls == 'dense': v = g.r.uniform(-1, 1)
            elif cls == 'diagdom': v = g.r.uniform(1, 2) * (i + 1) if i == j else g.r.uniform(-1, 1) * 10 ** g.r.uniform(-12, 0)
            elif cls == 'repeated': v = (2.0 if i == j else 1.0)
            elif cls == 'integer': v = float(g.randint(-3, 3))
            elif cls == 'ascending': v = float(i + 1) if i == j else g.r.uniform(-1, 1) * 1e-9
            elif cls == 'descending': v = float(n - i) if i == j else g.r.uniform(-1, 1) * 1e-9
            elif cls in ('block-equal', 'block-zero'):
                # dense leading block, then a decoupled pair with equal diagonal entries and exactly zero coupling
                m = n - 2
                if i < m and j < m: v = float(g.randint(-4, 4)) if g.random() < 0.5 else g.r.uniform(-1, 1)
                elif i == j: v = 3.0 if cls == 'block-equal' else 0.0
                else: v = 0.0
            elif cls == 'two-blocks':
                m = n // 2
                v = (g.r.uniform(-1, 1) if (i < m) == (j < m) else 0.0)
            elif cls == 'zero': v = 0.0
            elif cls == 'rank1': v = 1.0
            else: v = g.r.uniform(-1, 1)
            up[(i, j)] = v
    return up


CLASSES = ['dense', 'diagdom', 'repeated', 'integer', 'ascending', 'descending', 'zero', 'rank1', 'block-equal', 'block-zero', 'two-blocks']


def gen_C10(g, tier):
    n = 30 if tier == 'quick' else 1000
    cs = []
    for (a, b, c) in (EIG_EXACT if tier != 'quick' else g.r.sample(EIG_EXACT, min(60, len(EIG_EXACT)))):
        s0 = g.choice([F(0), g.rat(), F(5)])
        k = abs(g.nz())
        q = [s0, a * k, b * k, c * k]
        if not is_square_rat(2 * (k * k) * 1):   # scaling keeps the roots rational only for square k^2*...; use k = 1 otherwise
            q = [s0, F(a), F(b), F(c)]
        cs.append(Case('q.eigen %s' % frs(q), 'cmp', 'exact-eigen' + ('-s0zero' if s0 == 0 else '')))
        cs.append(Case('o.c10.eigen %s' % frs(q), 'orc', 'exact-eigen' + ('-s0zero' if s0 == 0 else '')))
    for q in ([1, 0, 0, 0], [0, 0, 0, 0], [2, 0, 0, 0]):
        cs.append(Case('q.eigen %s' % frs(q), 'cmp', 'exact-degenerate'))
        cs.append(Case('o.c10.eigen %s' % frs(q), 'orc', 'exact-degenerate'))
    for q in ([1, 2, 0, 0], [1, -2, 0, 0], [0, -1, 0, 0], [0, 3, 0, 0], [0, -5, 0, 0], [7, 1, 0, 0]):
        cs.append(Case('q.eigen %s' % frs(q), 'cmp', 'exact-axis'))
        cs.append(Case('o.c10.eigen %s' % frs(q), 'orc', 'exact-axis'))
    for _ in range(n):
        s0 = g.choice([0.0, g.r.uniform(-3, 3), 10 ** g.r.uniform(-50, 50)])
        kind = g.choice(['random', 'degenerate', 'axis', 'near-axis', 'tiny'])
        if kind == 'random': v = [g.r.uniform(-2, 2) for _ in range(3)]
        elif kind == 'degenerate': v = [0.0, 0.0, 0.0]
        elif kind == 'axis': v = [0.0, 0.0, 0.0]; v[g.randint(0, 2)] = g.choice([-1.0, 1.0]) * g.r.uniform(0.1, 3)
        elif kind == 'near-axis': v = [g.choice([-1.0, 1.0]), g.r.uniform(-1, 1) * 1e-9, g.r.uniform(-1, 1) * 1e-9]
        else: v = [g.r.uniform(-1, 1) * 1e-140 for _ in range(3)]
        q = [s0] + v
        cs.append(Case('qd.eigen %s' % hexes(q), 'cmp', 'double-eigen-' + kind))
        cs.append(Case('o.c10.eigend %s' % hexes(q), 'orc', 'double-eigen-' + kind, check=flags_then_small(1, 1e-9)))
        p, q2, pq = g.r.uniform(-2, 2), g.r.uniform(-2, 2), g.r.uniform(-1, 1) * 10 ** g.r.uniform(-18, 0)
        if g.random() < 0.2: q2 = p
        cs.append(Case('jac.real2 %s' % hexes([p, q2, pq]), 'cmp', 'jacobi-rotation-real'))
        cs.append(Case('jac.complex2 %s' % hexes([p, q2, pq, g.r.uniform(-1, 1) * abs(pq)]), 'cmp', 'jacobi-rotation-complex'))
    # a direct eigen() call, then the complex solver on a matrix whose leading block carries the same polarisation vector
    for _ in range(10 if tier == 'quick' else 300):
        s0 = g.choice([2.0, -1.5, 0.5, g.r.uniform(-3, 3)]); v = [g.r.uniform(-2, 2) for _ in range(3)]
        if g.random() < 0.7: v[0] = -abs(v[0])
        size = g.choice([2, 2, 3, 4])
        cvals = []
        for i in range(size):
            cvals.append(v[0] if i == 0 else (-v[0] if i == 1 else g.r.uniform(-1, 1)))
            for j in range(i + 1, size):
                cvals += ([v[1], -v[2]] if (i, j) == (0, 1) else [g.r.uniform(-1, 1), g.r.uniform(-1, 1)])
        cs.append(Case('o.c10.eigenhist %s %d %s' % (hexes([s0] + v), size, hexes(cvals)), 'orc', 'eigen-then-complex-solver', check=flags_then_small(1, 1e-8)))
    for cls in CLASSES:
        for size in range(2, 9):
            for _ in range((3 if cls.startswith('block') else 1) if tier == 'quick' else 12):
                up = sym_matrix(g, size, cls)
                for k in ([0, 500, -500, g.randint(-400, 400)] if tier != 'quick' else [0, g.choice([-500, 500, -50, 50])]):
                    scale = 2.0 ** k
                    note = ' #scale=2^%d #class=%s' % (k, cls)
                    vals = [up[(i, j)] * scale for i in range(size) for j in range(i, size)]
                    cs.append(Case('o.c10.jacobi %d %s%s' % (size, hexes(vals), note), 'orc', 'jacobi-real-' + cls, check=flags_then_small(1, 1e-12)))
                    cs.append(Case('jac.real %d %s' % (size, hexes(vals)), 'cmp', 'jacobi-solver-real-' + cls))
                    if size in (2, 3, 4, 5, 6, 8):
                        cvals = []
                        for i in range(size):
                            cvals.append(up[(i, i)] * scale)
                            for j in range(i + 1, size):
                                cvals += [up[(i, j)] * scale, (0.0 if cls in ('integer', 'repeated', 'rank1', 'zero') or up[(i, j)] == 0.0 else g.r.uniform(-1, 1) * abs(up[(i, j)])) * scale]
                        cs.append(Case('o.c10.cjacobi %d %s%s' % (size, hexes(cvals), note), 'orc', 'jacobi-complex-' + cls, check=flags_then_small(1, 1e-8)))
                        cs.append(Case('jac.complex %d %s' % (size, hexes(cvals)), 'cmp', 'jacobi-solver-complex-' + cls))
    return cs


def is_square_rat(x):
    x = F(x)
    a, b = math.isqrt(x.numerator), math.isqrt(x.denominator)
    return x >= 0 and a * a == x.numerator and b * b == x.denominator


C10 = dict(
    id='C10', module='EpsicProofs.Props.C10', gen=gen_C10,
    rule='exact: Hermitian quaternions with integer polarisation vectors for which every root is rational (incl. scalar part 0, '
         'degenerate and axis-aligned inputs); double: quaternions (random, degenerate, axis, near-axis, 1e-140), the 2x2 '
         'rotation-parameter routines (real and complex) compared bit for bit with the model at Float; the n x n solver for '
         'n=2..8 over eleven structure classes x scales 2^-500..2^500: the real symmetric and the complex Hermitian solver (all sweeps, thresholds, '
         'rotations, eigenvalue bookkeeping) compared bit for bit with the model at Float (eigenvalues and eigenvector matrix), and both '
         'solvers through the residual oracle (finite, E A E^T = diag, E E^T = 1 within 1e-12 / 1e-8 of ||A||)',
    trusted=['GMP exact rationals', 'glibc sqrt'],
    assumptions=['convergence of the sweep and the numeric tolerances are explored, not proved; convergence and floating-point accuracy of both solvers'],
    partial='convergence of either solver within 50 sweeps and the accuracies 1e-12 / 1e-8 in floating point (the theorems are exact-arithmetic invariants and the eigen-decomposition at the sum == 0 exit, for the real and the complex solver); the scale independence of the complex thresholds in floating point (known finding)',
)

SPECS = {'C09': C09, 'C10': C10}
