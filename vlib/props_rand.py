"""Property C18 (random sources) through harness group "rand": the real BoxMuller.C / random.C with
drand48() / random() replaced by scripted queues, plus the real libc drand48 for the seed clause."""
import math
from .core import dhex
from .runner import Case

GROUP = dict(name='rand', sources=['h_rand.cpp'], repo_sources=['util/BoxMuller.C', 'util/random.C', 'util/Pauli.C'], driver='rand', libs=('-ldl',), thread_mode=True)

RAND_MAX = 2147483647


def hexes(xs): return ' '.join(dhex(x) for x in xs)


def uniform(g):
    """one scripted uniform deviate in [0,1): generic, on the 2^-48 lattice drand48 produces, or near a boundary"""
    k = g.random()
    if k < 0.55: return g.r.randrange(0, 1 << 48) / float(1 << 48)
    if k < 0.65: return g.choice([0.0, 0.5, 1 - 2.0 ** -48, 2.0 ** -48, 0.5 + 2.0 ** -48, 0.5 - 2.0 ** -48, 0.25, 0.75])
    if k < 0.85:
        # second member of a pair on the unit circle is set by pair_boundary(); here: near the centre
        return 0.5 + g.choice([-1, 1]) * 2.0 ** -g.randint(20, 48)
    return g.r.random()


def pair_boundary(g):
    """a pair (u1,u2) whose w = v1^2+v2^2 is at or next to the acceptance boundary 1.0, or at zero"""
    k = g.random()
    if k < 0.15: return [0.5, 0.5]                                     # w = 0
    if k < 0.3: return g.choice([[0.0, 0.5], [0.5, 0.0], [1 - 2.0 ** -48, 0.5]])   # |v| = 1 on an axis
    th = g.r.uniform(0, 2 * math.pi); r = 1 + g.choice([0, 1, -1, 2, -2, 5, -5]) * 2.0 ** -24
    v1, v2 = r * math.cos(th), r * math.sin(th)
    u1 = min(max((v1 + 1) / 2, 0.0), 1 - 2.0 ** -48); u2 = min(max((v2 + 1) / 2, 0.0), 1 - 2.0 ** -48)
    q = float(1 << 48)
    return [math.floor(u1 * q) / q, math.floor(u2 * q) / q]


def stream(g, npairs):
    us = []
    for _ in range(npairs):
        if g.random() < 0.2: us += pair_boundary(g)
        else: us += [uniform(g), uniform(g)]
    return us


def flags_all_one(vals, line):
    t = line.split()
    if not t or t[0] != 'ok': return 'error result ' + line[:100]
    names = ['random_double in [0,1]', '|random_value| <= |scale|', 'random Stokes: I == scale, 0 <= |p| <= max*scale, invariant >= 0, no exception']
    for n, f in zip(names, t[1:]):
        if f != '1': return 'range contract broken: ' + n
    return None


def scaletypes_ok(vals, line):
    t = line.split()
    if not t or t[0] != 'ok' or len(t) != 7: return 'error result ' + line[:100]
    names = ['int scale', 'long scale', 'unsigned scale', 'float scale', 'Stokes<float> with double scale', 'Stokes<float> with float scale']
    for n, f in zip(names, t[1:]):
        if f != '1': return 'random Stokes contract (I == scale, 0 <= |p| <= max*scale, invariant >= 0 to rounding, no exception) broken for ' + n
    return None


def zero_flag(vals, line):
    t = line.split()
    if not t or t[0] != 'ok': return 'error result ' + line[:100]
    if t[1] != '0': return '%s non-finite deviates delivered' % t[1]
    return None


def stream_ok(vals, line):
    t = line.split()
    if not t or t[0] != 'ok': return 'error result ' + line[:100]
    if t[1] != '0': return '%s deviates differ from the polar Box-Muller transform of the uniform stream' % t[1]
    if t[2] != '0': return 'number of uniforms consumed differs from two per tried pair'
    return None


def seed_check(sd):
    """the constructor seeds the uniform source with exactly the given seed, for every non-zero seed (negative ones too)"""
    def chk(vals, line):
        t = line.split()
        if not t or t[0] != 'ok': return 'error result ' + line[:100]
        want = 'none' if sd == 0 else str(sd)
        if t[1] != want: return 'BoxMuller(%d) seeded the source with %s (expected %s): the stream is not reproducible from the seed' % (sd, t[1], want)
        return None
    return chk


def rint(g):
    k = g.random()
    if k < 0.25: return g.choice([0, RAND_MAX, RAND_MAX // 2, RAND_MAX // 2 + 1, 1, RAND_MAX - 1])
    return g.randint(0, RAND_MAX)


def scale(g):
    k = g.random()
    if k < 0.3: return g.choice([1.0, 10.0, 0.5, 3.0, 1e3])
    if k < 0.9: return 10 ** g.r.uniform(-12, 12)
    return g.choice([1e-100, 1e100, 1e-160, 1e150, 2.0 ** -500])


def gen_C18(g, tier):
    n = 60 if tier == 'quick' else 1500
    cs = []
    # the unit test's seed, the first deviates and well past them
    cs.append(Case('bm.real 13 10', 'cmp', 'seeded-stream'))
    for seed in (13, 1, -5, 123456789):
        for every in (0, 1, 3):
            cs.append(Case('o.c18.reseed %d %d %d' % (seed, 40, every), 'orc', 'seeded-stream-with-other-helpers-in-between'))
    cs.append(Case('bm.real 13 501', 'cmp', 'seeded-stream'))
    for _ in range(n // 3):
        seed = g.choice([g.randint(1, 10 ** 6), g.randint(-2 ** 31, 2 ** 31 - 1), g.randint(2 ** 31, 2 ** 40), -g.randint(1, 2 ** 40)])
        cs.append(Case('bm.real %d %d' % (seed, g.choice([1, 2, 3, 11, 64, 257, 1000 if tier == 'quick' else 5000])), 'cmp', 'seeded-stream'))
        cs.append(Case('lcg.seq %d %d' % (seed, g.randint(1, 50)), 'cmp', 'lcg'))
        sd = g.choice([0, seed, 1, -1, -seed])
        cs.append(Case('bm.seed %d' % sd, 'cmp', 'ctor-seed', check=seed_check(sd)))
    # seeds at the boundaries of the integer types: only 0 means "do not seed"
    for sd in ([2 ** 32, -2 ** 32, 3 * 2 ** 32, 2 ** 62, -2 ** 63, 2 ** 63 - 1, 2 ** 31, -2 ** 31, 2 ** 31 - 1, 2 ** 16, 2 ** 48, 2 ** 32 + 13, 256, -256]
               + [g.randint(1, 2 ** 31) * 2 ** 32 * g.choice([1, -1]) for _ in range(6)] + [g.choice([1, -1]) * 2 ** g.randint(1, 62) for _ in range(6)]):
        cs.append(Case('bm.seed %d' % sd, 'cmp', 'ctor-seed-boundary', check=seed_check(sd)))
        cs.append(Case('bm.real %d 5' % sd, 'cmp', 'seeded-stream-boundary'))
    for _ in range(n):
        npairs = g.choice([1, 2, 3, 5, 8, 20, 60, 200])
        us = stream(g, npairs)
        calls = g.choice([1, 2, 3, npairs, max(1, npairs // 2), 2 * npairs, npairs + 1])
        cs.append(Case('bm.seq %d %s' % (calls, hexes(us)), 'cmp', 'scripted-stream'))
        cs.append(Case('o.c18.stream %d %s' % (calls, hexes(us)), 'orc', 'scripted-stream-reference', check=stream_ok))
        pat = ''.join(g.choice('AB') for _ in range(g.choice([2, 3, 4, 7, 16, calls])))
        cs.append(Case('bm.two %s %s' % (pat, hexes(us)), 'cmp', 'interleaved-generators'))
    # long rejection runs followed by an accepted pair
    for k in (1, 2, 7, 40, 300):
        us = []
        for _ in range(k): us += g.choice([[0.0, 0.0], [1 - 2.0 ** -48, 0.0], [0.0, 0.5], [0.02, 0.97]])
        us += [0.3, 0.6, 0.61, 0.42]
        cs.append(Case('bm.seq 4 %s' % hexes(us), 'cmp', 'rejection-run'))
        cs.append(Case('o.c18.stream 4 %s' % hexes(us), 'orc', 'rejection-run', check=stream_ok))
        cs.append(Case('bm.two ABAB %s' % hexes(us), 'cmp', 'rejection-run'))
        cs.append(Case('bm.two AABB %s' % hexes(us), 'cmp', 'rejection-run'))
    # very long rejection runs (the generator must keep drawing for as long as the source rejects)
    for nrej in ([1000, 65536, 65537, 1000001] if tier == 'quick' else [1000, 65535, 65536, 65537, 999999, 1000000, 1000001, 3000000, 16777217]):
        cs.append(Case('o.c18.longreject %d %s' % (nrej, hexes([0.3, 0.6])), 'orc', 'rejection-run-very-long', check=zero_flag))
    # finiteness of what is delivered, including the centre of the square
    for _ in range(n // 2):
        us = stream(g, 30)
        cs.append(Case('o.c18.finite 20 %s' % hexes(us + [0.3, 0.6] * 20), 'orc', 'finite-deviates', check=zero_flag))
    cs.append(Case('o.c18.finite 2 %s' % hexes([0.5, 0.5, 0.3, 0.6]), 'orc', 'finite-deviates', check=zero_flag))
    # random_value family
    for _ in range(n):
        sc = scale(g) * g.choice([1, 1, 1, -1])
        cs.append(Case('rnd.double %d' % rint(g), 'cmp', 'uniform-helper'))
        cs.append(Case('rnd.value %s %d' % (dhex(sc), rint(g)), 'cmp', 'scalar'))
        cs.append(Case('rnd.cvalue %s %d %d' % (dhex(sc), rint(g), rint(g)), 'cmp', 'complex'))
        cs.append(Case('rnd.vector %s %s' % (dhex(sc), ' '.join(str(rint(g)) for _ in range(7))), 'cmp', 'vector-matrix'))
        mp = g.choice([1.0, 1.0, 0.5, 0.25, 0.0, 0.75])
        cs.append(Case('rnd.stokes %s %s %s' % (dhex(abs(sc)), dhex(mp), ' '.join(str(rint(g)) for _ in range(4))), 'cmp', 'stokes'))
        cs.append(Case('o.c18.ranges %s %s %s' % (dhex(abs(sc)), dhex(mp), ' '.join(str(rint(g)) for _ in range(g.choice([4, 6, 9])))), 'orc', 'ranges', check=flags_all_one))
    # the scale passed as int / long / unsigned / float, and single-precision vectors
    for _ in range(n):
        isc = g.choice([1, 2, 3, 10, 100, 1000, 12345, g.randint(1, 1000000)]); mp = g.choice([1.0, 1.0, 0.5, 0.25, 0.75])
        cs.append(Case('o.c18.scaletypes %d %s %s' % (isc, dhex(mp), ' '.join(str(rint(g)) for _ in range(4))), 'orc', 'scale-types', check=scaletypes_ok))
    # Stokes vectors filled through the generic container fillers
    for _ in range(max(4, n // 4)):
        cs.append(Case('o.c18.containers %s %s' % (dhex(g.choice([1.0, 10.0, 0.5, 10 ** g.r.uniform(-3, 6)])), ' '.join(str(g.randint(10000, RAND_MAX - 10000)) for _ in range(16))), 'orc', 'containers-of-stokes'))
    for _ in range(n // 2):   # the fraction at (and just below) its maximum: the rounding of the single-precision paths
        isc = g.choice([1, 3, 10, 1000, 77777]); r0 = g.choice([RAND_MAX, RAND_MAX - 1, RAND_MAX - 100, RAND_MAX - 5000])
        cs.append(Case('o.c18.scaletypes %d %s %d %s' % (isc, dhex(g.choice([1.0, 0.5])), r0, ' '.join(str(g.randint(0, RAND_MAX)) for _ in range(3))), 'orc', 'scale-types-full-fraction', check=scaletypes_ok))
    for sc in (0.0, 1.0, 1e4, 1e8, 1e-170, 1e-200, 1e160):
        for mp in (1.0, 0.5):
            for r0 in (RAND_MAX, RAND_MAX - 1, 0):
                cs.append(Case('o.c18.ranges %s %s %d %d %d %d' % (dhex(sc), dhex(mp), r0, rint(g), rint(g), rint(g)), 'orc', 'ranges-edge', check=flags_all_one))
    return cs


def replay_check(vals, line_out):
    # replayed oracle lines: every C18 oracle prints flags; which convention applies is decided by the arity
    t = line_out.split()
    if not t or t[0] != 'ok': return 'error result ' + line_out[:100]
    if len(t) == 2: return zero_flag(vals, line_out)
    if len(t) == 3: return stream_ok(vals, line_out)
    if len(t) == 7: return scaletypes_ok(vals, line_out)
    return flags_all_one(vals, line_out)


C18 = dict(
    id='C18', module='EpsicProofs.Props.C18', gen=gen_C18, replay_check=replay_check,
    rule='BoxMuller on the real libc drand48 for random seeds (32-bit, 64-bit, negative), compared deviate by deviate with the model '
         '(48-bit LCG + polar transform at single/double precision over the shared libm); scripted uniform streams with generic, '
         'lattice, near-centre and acceptance-boundary pairs, rejection runs of length 1..300, 1..400 calls on one generator and '
         'random A/B interleavings of two generators on one source, including stream exhaustion; random_double / random_value / '
         'random_vector / random_matrix / random_value(Stokes) for random() in {0, RAND_MAX, midpoints, random} and scales over 24 '
         'decades (and extreme), compared bit for bit with the model; range oracles on the implementation',
    trusted=['glibc libm (logf, sqrt) shared by harness and model driver', 'glibc drand48/srand48 reached through dlsym(RTLD_NEXT)',
             'link-time interposition of drand48/random/srand48/srandom in the harness executable'],
    assumptions=['distributional clause: uniform i.i.d. inputs are assumed, the theorem is the exact stream transform', 'IEEE rounding not proved; range theorems are over ordered fields'],
    partial='independence/normality of the deviates follows from the stream refinement only under ideal uniform inputs (classical result, not formalised); floating-point rounding of the ranges',
)
SPECS = {'C18': C18}
