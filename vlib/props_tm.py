"""Property C20: non-finite detection regardless of the caller's compiler flags.
36 harness binaries (true_math.c under 4 flag sets x caller under 9 flag sets, including partial fast-math sets) are run on the
complete finite product of special values x component positions x container types and compared
with the bit-level model."""
import json, os, subprocess, time, itertools
from concurrent.futures import ThreadPoolExecutor
from . import core
from .core import log
from . import runner

FLAGSETS = {'O0': ['-O0'], 'O2': ['-O2'], 'O3fast': ['-O3', '-ffast-math'], 'Ofast': ['-Ofast']}
# the caller may enable any subset of the fast-math family (each sub-flag alone removes NaN/inf handling or not, and only
# the full set defines __FAST_MATH__)
CALLER_FLAGSETS = dict(FLAGSETS)
CALLER_FLAGSETS.update({'O2finite': ['-O2', '-ffinite-math-only'], 'O2fast-signedzeros': ['-O2', '-ffast-math', '-fsigned-zeros'],
                        'O3fast-trapping': ['-O3', '-ffast-math', '-ftrapping-math'], 'Ofast-errno': ['-Ofast', '-fmath-errno'],
                        'O1nonans': ['-O1', '-ffinite-math-only', '-fno-signed-zeros']})

D = {'qnan': '7ff8000000000000', 'snan-payload': '7ff0000000000001', 'neg-qnan': 'fff8000000000000', '+inf': '7ff0000000000000', '-inf': 'fff0000000000000',
     '+0': '0000000000000000', '-0': '8000000000000000', 'denormal': '0000000000000001', '-denormal': '8000000000000001',
     'max': '7fefffffffffffff', '-max': 'ffefffffffffffff', 'one': '3ff0000000000000', '-one': 'bff0000000000000'}
F = {'qnan': '7fc00000', '+inf': '7f800000', '-inf': 'ff800000', '+0': '00000000', '-0': '80000000', 'denormal': '00000001', 'max': '7f7fffff',
     '-max': 'ff7fffff', 'one': '3f800000', '-one': 'bf800000', 'neg-qnan': 'ffc00000'}
LD = {'qnan': '7fffc000000000000000', '+inf': '7fff8000000000000000', '-inf': 'ffff8000000000000000', '+0': '00000000000000000000', '-0': '80000000000000000000',
      'denormal': '00000000000000000001', 'max': '7ffeffffffffffffffff', '-max': 'fffeffffffffffffffff', 'one': '3fff8000000000000000', '-one': 'bfff8000000000000000',
      'neg-qnan': 'ffffc000000000000000'}


def cases():
    cs = []
    for k, v in D.items(): cs.append(('tm.d %s' % v, 'scalar-double-' + k))
    for k, v in F.items(): cs.append(('tm.f %s' % v, 'scalar-float-' + k))
    for k, v in LD.items(): cs.append(('tm.ld %s' % v, 'scalar-longdouble-' + k))
    fill = D['one']
    for k, v in D.items():
        for pos in range(2):
            a = [fill, fill]; a[pos] = v; cs.append(('tm.cx %s' % ' '.join(a), 'complex-' + k))
        for n in range(1, 7):
            for pos in range(n):
                a = [fill] * n; a[pos] = v; cs.append(('tm.vec %d %s' % (n, ' '.join(a)), 'vector-' + k))
        for pos in range(8):
            a = [fill] * 8; a[pos] = v; cs.append(('tm.jones %s' % ' '.join(a), 'jones-' + k))
        # other backgrounds: all zeros, and a diagonal matrix (exact zeros off the diagonal)
        zero = D['+0']
        for pos in range(8):
            a = [zero] * 8; a[pos] = v; cs.append(('tm.jones %s' % ' '.join(a), 'jones-zero-background-' + k))
            a = [D['one'], D['-one'], zero, zero, zero, zero, D['max'], D['one']]; a[pos] = v; cs.append(('tm.jones %s' % ' '.join(a), 'jones-diagonal-background-' + k))
            a = [zero, zero, D['one'], D['-one'], D['max'], D['one'], zero, zero]; a[pos] = v; cs.append(('tm.jones %s' % ' '.join(a), 'jones-antidiagonal-background-' + k))
        for n in (2, 4):
            for pos in range(n):
                a = [zero] * n; a[pos] = v; cs.append(('tm.vec %d %s' % (n, ' '.join(a)), 'vector-zero-background-' + k))
        for pos in range(2):
            a = [zero, zero]; a[pos] = v; cs.append(('tm.cx %s' % ' '.join(a), 'complex-zero-background-' + k))
        for pos in range(4):
            a = [fill] * 4; a[pos] = v; cs.append(('tm.stokes %s' % ' '.join(a), 'stokes-' + k)); cs.append(('tm.mat22 %s' % ' '.join(a), 'matrix-' + k)); cs.append(('tm.vecvec %s' % ' '.join(a), 'vector-of-vectors-' + k))
        for pos in range(6):
            a = [fill] * 6; a[pos] = v; cs.append(('tm.mat23 %s' % ' '.join(a), 'matrix-' + k))
        for pos in range(4):
            for bg in (fill, D['+0']):
                a = [bg] * 4; a[pos] = v; cs.append(('tm.cvec %s' % ' '.join(a), 'vector-of-complex-' + k))
        for pos in range(8):
            a = [fill] * 8; a[pos] = v; cs.append(('tm.cstokes %s' % ' '.join(a), 'stokes-of-complex-' + k))
        cs.append(('tm.est %s %s' % (v, fill), 'estimate-value-' + k))
        cs.append(('tm.est %s %s' % (fill, v), 'estimate-variance-' + k))
    for k, v in F.items():
        for pos in range(2):
            a = [F['one'], F['one']]; a[pos] = v; cs.append(('tm.cxf %s' % ' '.join(a), 'complex-float-' + k))
        for pos in range(4):
            a = [F['one']] * 4; a[pos] = v; cs.append(('tm.stokesf %s' % ' '.join(a), 'stokes-float-' + k))
        for pos in range(4):
            a = [F['one']] * 4; a[pos] = v; cs.append(('tm.cvecf %s' % ' '.join(a), 'vector-of-complex-float-' + k))
        cs.append(('tm.estf %s %s' % (v, F['one']), 'estimate-float-' + k))
    for k, v in LD.items():
        for pos in range(4):
            a = [LD['one']] * 4; a[pos] = v; cs.append(('tm.cvecld %s' % ' '.join(a), 'vector-of-complex-longdouble-' + k))
        cs.append(('tm.estld %s %s' % (v, LD['one']), 'estimate-longdouble-' + k))
    # literals written at the call site (index of the literal for the harness, its bit pattern for the model)
    KD = ['qnan', '+inf', '-inf', '+0', '-0', 'one', '-one', 'max', '-max', 'denormal', 'neg-qnan']
    for k, name in enumerate(KD):
        if name in ('-0', 'neg-qnan'): continue   # a negated zero / NaN literal is the caller's own arithmetic: under -fno-signed-zeros its sign is not defined
        cs.append(('tm.kd %d %s' % (k, D[name]), 'literal-double-' + name))
        cs.append(('tm.kf %d %s' % (k, F[name]), 'literal-float-' + name))
        cs.append(('tm.kld %d %s' % (k, LD[name]), 'literal-longdouble-' + name))
        cs.append(('tm.kest %d %s %s' % (k, D[name], D['one']), 'literal-estimate-' + name))
        cs.append(('tm.kestf %d %s %s' % (k, F[name], F['one']), 'literal-estimate-float-' + name))
        cs.append(('tm.kcx %d %s %s' % (k, D[name], D['one']), 'literal-complex-' + name))
    # several constants evaluated in one function (k = 100+i: in the order +0 -0 one -one +inf -inf, k = 200+i: in the reverse order)
    for i, name in enumerate(['+0', '-0', 'one', '-one', '+inf', '-inf']):
        for base in (100, 200):
            cs.append(('tm.kd %d %s' % (base + i, D[name]), 'constants-in-one-function-double-' + name))
            cs.append(('tm.kf %d %s' % (base + i, F[name]), 'constants-in-one-function-float-' + name))
    # two special values at once
    for a, b in itertools.product(['qnan', '+inf', '-0', 'max'], repeat=2):
        cs.append(('tm.cx %s %s' % (D[a], D[b]), 'complex-pair'))
    return cs


def build(scr, tmflags, callerflags, name):
    hdir = os.path.join(core.VERIF, 'harness')
    os.makedirs(os.path.join(core.BUILD, 'bin'), exist_ok=True)
    key = scr.digest([os.path.join(hdir, 'h_tm.cpp')])
    exe = os.path.join(core.BUILD, 'bin', 'tm-%s-%s' % (name, key))
    if os.path.exists(exe): return exe, None
    obj = exe + '.tm.o'
    p = subprocess.run(['gcc', '-c'] + tmflags + ['-I' + scr.util, os.path.join(scr.util, 'true_math.c'), '-o', obj], stdout=subprocess.PIPE, stderr=subprocess.STDOUT, text=True)
    if p.returncode: return None, p.stdout
    p = subprocess.run(['g++', '-std=gnu++17', '-w', '-DEPSIC_VERIF'] + callerflags + ['-I' + scr.util, '-I' + scr.src, os.path.join(hdir, 'h_tm.cpp'), obj, '-o', exe + '.tmp'],
                       stdout=subprocess.PIPE, stderr=subprocess.STDOUT, text=True)
    try: os.unlink(obj)
    except OSError: pass
    if p.returncode: return None, p.stdout
    os.replace(exe + '.tmp', exe)
    return exe, None


def run(spec, group, tier, seed, replay=None):
    t0 = time.time()
    pid = spec['id']
    broken = []
    ok, thms, discharged, per_axioms, checker_note = runner.check_obligations(spec, tier, broken)
    cs = cases()
    if replay:
        rj = json.load(open(replay)); cs = [(l, 'replay') for l in rj['lines']]
    lines = [c[0] for c in cs]
    model = core.run_lines([core.driver_exe(), 'tm'], lines) if ok else []
    fails, total = [], 0
    known = runner.load_known()
    with core.Scratch() as scr:
        combos = [(a, b) for a in FLAGSETS for b in CALLER_FLAGSETS]
        with ThreadPoolExecutor(16) as ex:
            built = list(ex.map(lambda ab: build(scr, FLAGSETS[ab[0]], CALLER_FLAGSETS[ab[1]], 'tm%s-caller%s' % ab), combos))
        for (a, b), (exe, err) in zip(combos, built):
            if exe is None:
                broken.append('harness tm (true_math %s, caller %s) does not compile: %s' % (a, b, (err or '')[-600:])); continue
            out = core.run_lines([exe], lines)
            for l, o, m in zip(lines, out, model):
                total += 1
                if o != m and not runner.known_match(known, pid, l):
                    fails.append({'line': l, 'true_math_flags': a, 'caller_flags': b, 'implementation': o, 'model': m})
    violation = bool(broken or fails)
    os.makedirs(os.path.join(core.VERIF, 'replays'), exist_ok=True)
    if violation:
        rp = os.path.join(core.VERIF, 'replays', '%s-%s-seed%d.json' % (pid, tier, seed))
        json.dump({'property': pid, 'lines': sorted(set(f['line'] for f in fails))[:40], 'failures': fails[:40], 'no_longer_checks': broken,
                   'failing_input_found': bool(fails), 'replay_cmd': './check %s --replay %s' % (pid, rp)}, open(rp, 'w'), indent=1)
        print('VIOLATION property=%s replay=%s%s' % (pid, rp, '' if fails else ' no-failing-input-found'))
    tags = {}
    for _, t in cs: tags[t.split('-')[0]] = tags.get(t.split('-')[0], 0) + 1
    ev = {'property_id': pid, 'tier': tier, 'seed': seed, 'level': 'proof',
          'coverage': {'obligations': max(len(thms), 1), 'discharged': discharged if not broken else min(discharged, max(len(thms) - 1, 0)),
                       'checker_cmd': 'cd lean && lake build %s && lake env lean <#print axioms of every theorem>' % spec['module'],
                       'trusted_base': ['Lean 4.33 kernel', 'axioms used: ' + ', '.join(sorted(set(a for v in per_axioms.values() for a in v)) or ['none']),
                                        'IEEE-754 encodings of float/double/x87 long double on this platform', 'gcc/g++ 12 (other compilers not covered)'],
                       'theorems': thms, 'evaluations': total, 'distinct_nontrivial': len(set(lines)),
                       'flag_combinations': ['true_math.c %s / caller %s' % ab for ab in combos],
                       'rule': spec['rule'], 'input_distribution': tags, 'exhaustive': True,
                       'samples': [{'line': l, 'model': m} for l, m in list(zip(lines, model))[:6]],
                       'disagreements': len(fails), 'notes': [checker_note] if checker_note else []},
          'assumptions': spec['assumptions'], 'wall_s': round(time.time() - t0, 2), 'violations': len(fails) + len(broken)}
    json.dump(ev, open(os.path.join(core.VERIF, 'evidence', pid + '.json'), 'w'), indent=1)
    log('%s: %s in %.1fs (%d evaluations)' % (pid, 'VIOLATION' if violation else 'ok', time.time() - t0, total))
    return 1 if violation else 0


GROUP = dict(name='tm', sources=['h_tm.cpp'], driver='tm')
C20 = dict(
    id='C20', module='EpsicProofs.Props.C20', run=run,
    rule='the complete finite product {quiet NaN, NaN with payload, negative NaN, +-inf, +-0, +-denormal, +-largest finite, +-1} x every '
         'component position x {scalar, complex, Vector N=1..6, Jones, Estimate value / variance} x '
         '{float, double, long double}, evaluated by 36 binaries: true_math.c compiled with -O0, -O2, -O3 -ffast-math, -Ofast '
         'crossed with the caller compiled under those four flag sets and five partial fast-math sets (-ffinite-math-only alone, '
         '-ffast-math with -fsigned-zeros / -ftrapping-math / -fmath-errno restored, -ffinite-math-only -fno-signed-zeros); '
         'every result compared with the bit-level model',
    assumptions=['IEEE-754 / x87 encodings; only the installed compiler is covered'],
    partial='other compilers and versions',
)
SPECS = {'C20': C20}
