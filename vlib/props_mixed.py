"""Mixed single/double precision oracle (harness group "mixed"), shared by C03 C04 C13 C15:
a mixed-precision operation must equal, bit for bit, the all-double operation on the exactly
converted operands."""
import struct
from .core import dhex
from .runner import Case

GROUP = dict(name='mixed', sources=['h_mixed.cpp'], repo_sources=['util/Pauli.C'], driver=None, libs=())


def f32(x):
    """round to the nearest float, return as double"""
    return struct.unpack('<f', struct.pack('<f', x))[0]


def halves_equal_tokens(vals, line):
    t = line.split()
    if not t or t[0] != 'ok': return 'error result ' + line[:80]
    t = t[1:]; n = len(t) // 2

    def norm(h):   # all NaNs compare equal
        u = int(h, 16); return 'nan' if (u & 0x7ff0000000000000) == 0x7ff0000000000000 and (u & 0xfffffffffffff) else h
    a, b = [norm(x) for x in t[:n]], [norm(x) for x in t[n:]]
    if a != b:
        bad = [i for i in range(n) if a[i] != b[i]]
        return 'mixed-precision result differs from the promoted all-double result at output positions %s' % bad[:6]
    return None


def fvals(g, n, special):
    res = []
    for _ in range(n):
        k = g.random()
        if special and k < 0.1: x = 0.0
        elif special and k < 0.2: x = g.choice([1.0, -1.0, 0.5, 3.0])
        elif k < 0.7: x = g.r.uniform(-4, 4)
        else: x = g.r.uniform(-1, 1) * 10.0 ** g.randint(-20, 20)
        res.append(x)
    return res


def gen_mixed(g, tier, which):
    n = 30 if tier == 'quick' else 600
    cs = []
    arity = {'mp.jones': (8, 8), 'mp.jonesc': (0, 8, 2), 'mp.quat': (4, 4), 'mp.biquat': (8, 8), 'mp.minkowski': (4, 4),
             'mp.outer': (3, 2), 'mp.direct': (4, 6)}
    for op in which:
        for i in range(n):
            sp = i % 3 == 0
            if op == 'mp.jonesc':
                d = fvals(g, 8, sp); f = [f32(x) for x in fvals(g, 2, sp)]
                line = '%s %s %s' % (op, ' '.join(dhex(x) for x in d), ' '.join(dhex(x) for x in f))
            elif op == 'mp.pauli':
                j = fvals(g, 8, sp); q = [f32(x) for x in fvals(g, 4, sp)]; s = fvals(g, 4, sp); jf = [f32(x) for x in fvals(g, 8, sp)]
                line = '%s %s' % (op, ' '.join(dhex(x) for x in j + q + s + jf))
            else:
                nf, nd = arity[op]
                f = [f32(x) for x in fvals(g, nf, sp)]
                if op == 'mp.minkowski' and i % 5 == 0:       # nearly fully polarised pair: cancellation exposes a narrow accumulator
                    f = [5.0, 3.0, 0.0, 4.0]; d = [5.0 + 10.0 ** -g.randint(3, 9), 3.0, 0.0, 4.0]
                elif op == 'mp.minkowski' and i % 5 == 1:     # the double operand rounds to the float operand without being equal to it
                    f = [f32(x) for x in g.choice([[16777216.0, 16777216.0, 0.0, 0.0], [3.0, 1.0, -2.0, 0.5], fvals(g, 4, False)])]
                    d = [x * (1.0 + g.choice([-1, 1]) * 10.0 ** -g.randint(9, 12)) if x != 0 else 0.0 for x in f]
                    if f[0] == 16777216.0: d = [16777216.5, 16777215.75, 0.0, 0.0]
                elif op in ('mp.biquat', 'mp.quat') and i % 4 == 1:   # the wider operand is a pure scalar that the narrower type cannot hold
                    d = [0.0] * nd; d[0] = g.choice([1.0 / 3, 1e40, 1e-60, -7e45, 0.1, 3.0])
                    if op == 'mp.biquat': d[1] = g.choice([0.25, 0.0, 1e41, -1e-70, 1.0 / 7])
                else:
                    d = fvals(g, nd, sp)
                line = '%s %s %s' % (op, ' '.join(dhex(x) for x in f), ' '.join(dhex(x) for x in d))
            cs.append(Case(line, 'orc', 'mixed-precision-' + op, check=halves_equal_tokens))
    return cs
