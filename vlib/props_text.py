"""Property C19 (text output parses back) through harness group "text".
The model works on number *lexemes*; `model_canon` evaluates them (Python's float() is a correctly
rounded strtod) so that model and implementation lines can be compared token by token."""
import math, re, struct
from .core import dhex, hexd
from .runner import Case

GROUP = dict(name='text', sources=['h_text.cpp'], repo_sources=['util/Conventions.C', 'util/Pauli.C'], driver='text', libs=(), thread_mode=True)

SV, SVAR, SIM = 777.5, 0.25, -3.25


def enc(s): return ''.join('%02x' % ord(c) for c in s) if s else '_'
def dec(h): return '' if h == '_' else bytes.fromhex(h).decode('latin-1')
def fmt(x): return '%.17g' % x


def model_canon(line):
    toks = line.split(' ')
    for i, t in enumerate(toks):
        if t.startswith('n:') or t.startswith('q:'):
            try:
                x = float(dec(t[2:]))
                toks[i] = dhex(x * x if t[0] == 'q' else x)
            except Exception:
                toks[i] = 'unparsable:' + t
    return ' '.join(toks)


def mask_eof(line, op_line):
    """Estimate's extractor reads an uninitialised char when the stream is already at its end; whether it
    then calls unget() (which clears eofbit) depends on stack garbage.  The fail state, the position and
    the destination do not depend on it; the eof bit of an already failed stream is not compared."""
    if not (op_line.startswith('t.in.est') or op_line.startswith('t.in.vece')): return line
    t = line.split(' ')
    if len(t) >= 4 and t[0] == 'ok' and t[-3] == '1': t[-2] = '9'
    return ' '.join(t)


def value(g):
    k = g.random()
    if k < 0.12: return g.choice([0.0, -0.0, 1.0, -1.0, 0.5, 10.0, 100.0, 1e16, 1e17, 123456.0, 0.1, 0.2, 0.3, 1 / 3.0])
    if k < 0.22: return g.choice([1.7976931348623157e308, -1.7976931348623157e308, 5e-324, -5e-324, 2.2250738585072014e-308, 2.2250738585072009e-308, 1e-320])
    if k < 0.5: return g.r.uniform(-10, 10)
    if k < 0.8: return g.choice([1, -1]) * 10 ** g.r.uniform(-30, 30)
    if k < 0.9: return g.choice([1, -1]) * 10 ** g.r.uniform(-300, 300)
    return struct.unpack('<d', struct.pack('<Q', g.r.randrange(0, 0x7ff0000000000000)))[0] * g.choice([1, -1])


def variance(g):
    k = g.random()
    if k < 0.15: return g.choice([0.0, 1.0, 0.25, 4.0, 1e-300, 1e300])
    if k < 0.6: return g.r.uniform(0, 10)
    return 10 ** g.r.uniform(-200, 200)


def state_of(t):
    """(fail, eof, pos) are the last three tokens of a parse result"""
    return int(t[-3]), int(t[-2]), int(t[-1])


def rt_check(kind, orig):
    """implementation-only oracle on a round-trip line: not failed, and every value parsed back is the
    value written (estimates: same value, same standard error)"""
    def chk(vals, line):
        t = line.split()
        if not t or t[0] != 'ok': return 'error result ' + line[:100]
        fail, eof, pos = state_of(t)
        if fail: return 'reading back what was written set the fail state (text %r)' % dec(t[1])
        got = [hexd(h) for h in t[2:-3]]
        if kind == 'est':
            if len(got) != len(orig): return 'wrong number of values'
            for i in range(0, len(orig), 2):
                if dhex(got[i]) != dhex(orig[i]): return 'value %r read back as %r (text %r)' % (orig[i], got[i], dec(t[1]))
                if math.sqrt(got[i + 1]) != math.sqrt(orig[i + 1]): return 'standard error %r read back as %r' % (math.sqrt(orig[i + 1]), math.sqrt(got[i + 1]))
        else:
            if [dhex(x) for x in got] != [dhex(x) for x in orig]: return 'values %r read back as %r (text %r)' % (orig, got, dec(t[1]))
        return None
    return chk


NUM = r'[+-]?(?:\d+\.?\d*|\.\d+)(?:[eE][+-]?\d+)?'
EST = r'(?:\(\s*%s\+-\s*%s\)|%s\+-\s*%s)' % (NUM, NUM, NUM, NUM)
CPX = r'(?:\(\s*%s\s*(?:,\s*%s\s*)?\)|%s)' % (NUM, NUM, NUM)


def vec_re(elem, n): return re.compile(r'^\s*\(\s*' + (r'\s*,\s*'.join([elem] * n)) + r'\s*\)', re.S)


def malformed_check(kind, n, text, sentinel_hex):
    """sound in one direction only: if no prefix of the text is in the grammar the fail state must be set;
    and a failed estimate extraction must leave the destination unchanged"""
    if kind == 'est': rx = re.compile(r'^\s*' + EST, re.S)
    elif kind == 'vecd': rx = vec_re(NUM, n)
    elif kind == 'vece': rx = vec_re(EST, n)
    elif kind == 'vecc': rx = vec_re(CPX, n)
    elif kind == 'basis': rx = re.compile(r'^\s*(?:(?:lin|Linear|cir|circ|Circular|ell|Elliptical)(?=\s|$)|[+-]?0*[012](?!\d))', re.S)
    else: rx = re.compile(r'^\s*[+-]?0*1(?!\d)', re.S)
    in_grammar = bool(rx.match(text))

    def chk(vals, line):
        t = line.split()
        if not t or t[0] != 'ok': return 'error result ' + line[:100]
        fail, eof, pos = state_of(t)
        if not in_grammar and not fail: return 'malformed text %r did not set the fail state' % text
        if kind == 'est' and fail and ' '.join(t[1:3]) != sentinel_hex:
            return 'failed estimate extraction changed the destination (text %r)' % text
        return None
    return chk


SPELLINGS = [('lin', 1), ('Linear', 1), ('cir', 0), ('circ', 0), ('Circular', 0), ('ell', 2), ('Elliptical', 2), ('0', 0), ('1', 1), ('2', 2)]


def spelling_check(expected):
    def chk(vals, line):
        t = line.split()
        if not t or t[0] != 'ok': return 'error result ' + line[:100]
        fail, eof, pos = state_of(t)
        if fail: return 'documented spelling set the fail state'
        if int(t[1]) != expected: return 'documented spelling parsed as %s, expected %d' % (t[1], expected)
        return None
    return chk


def mutate(g, text):
    k = g.random()
    if not text: return g.choice(['', ' ', '(', ')'])
    i = g.randint(0, len(text) - 1)
    if k < 0.25: return text[:i]                                   # truncate
    if k < 0.45: return text[:i] + text[i + 1:]                    # delete
    if k < 0.7: return text[:i] + g.choice('(),+-. e1x;[') + text[i + 1:]   # replace
    if k < 0.9: return text[:i] + g.choice('(),+-. \n\te1x') + text[i:]     # insert
    return text + g.choice([')', ',', ' 1', 'x', '+-1'])


def est_text(g, bracketed=True):
    v, var = value(g), variance(g)
    s = '%s+-%s' % (fmt(v), fmt(math.sqrt(var)))
    return '(' + s + ')' if bracketed else s


def gen_C19(g, tier):
    n = 60 if tier == 'quick' else 1500
    cs = []
    est_sent = '%s %s' % (dhex(SV), dhex(SVAR))
    # leaves: the stream's own number formatting/parsing, and the model's lexer on the same text
    for _ in range(n * 2):
        x = value(g)
        cs.append(Case('t.leaf %s %s' % (dhex(x), enc(fmt(x))), 'cmp', 'number-leaf', check=rt_check('num', [x])))
    # several values on one stream, white space between them (files with one value per line or column)
    def multi_ok(vals, line):
        t = line.split()
        if not t or t[0] != 'ok' or len(t) != 3: return 'error result ' + line[:100]
        if t[1] != '0' or t[2] != '0': return 'values written to one stream with white-space separators did not all read back (%s components differ, stream %s)' % (t[1], 'failed' if t[2] != '0' else 'good')
        return None
    for _ in range(max(12, n // 3)):
        k = g.randint(2, 6); items = []
        for _ in range(k):
            kind = g.choice(['d3', 's', 'c2', 'e', 'se']); m = {'d3': 3, 's': 4, 'c2': 4, 'e': 2, 'se': 4}[kind]
            xs = [g.choice([0.0, 1.0, -2.5, 1e300, -1e-300, g.r.uniform(-10, 10), 10 ** g.r.uniform(-30, 30)]) for _ in range(m)]
            if kind == 'e': xs[1] = abs(xs[1])
            items.append(kind + ' ' + ' '.join(dhex(x) for x in xs))
        cs.append(Case('o.c19.multi %d %d %d %s' % (k, g.randint(0, 4), g.choice([0, 0, 1, 2, 3, 4, 6, 8, 9, 15]), ' '.join(items)), 'orc', 'several-values-one-stream', check=multi_ok))
    # a failed stream stays failed, and extraction from a failed stream changes nothing
    def est_txt(bracket=True):
        t = '%s+-%s' % (fmt(g.choice([1.0, -2.5, 3.0, g.r.uniform(-10, 10)])), fmt(g.choice([0.5, 0.25, 2.0, g.r.uniform(0.1, 3)])))
        return '(' + t + ')' if bracket else t
    for _ in range(max(6, n // 4)):
        good = [est_txt(g.random() < 0.5) for _ in range(3)]
        broken = g.choice(['(1+-0.5', '(1+-', '(1+0.5)', '1+0.5', '(1-+0.5)', '(+-0.5)', 'x', '(1+-0.5]', '(1 +- 0.5 2', '1+-x'])
        sep = g.choice([' ', '\n', '\t', '  '])
        cs.append(Case('o.c19.afterfail pair %s' % enc(broken + sep + good[0]), 'orc', 'second-extraction-after-a-failed-one'))
        cs.append(Case('o.c19.afterfail pair %s' % enc(good[0] + sep + good[1]), 'orc', 'second-extraction-after-a-good-one'))
        cs.append(Case('o.c19.afterfail pre %s' % enc(g.choice([good[0], '(1,2)', '(1,2,3,4)', '1', 'Linear', good[0] + sep + good[1], '((1+-1),(2+-1))'])), 'orc', 'extraction-from-a-failed-stream'))
        # a container of estimates with one malformed element that is followed by well-formed text
        for kind, nel in (('vec3', 3), ('stokes', 4)):
            els = ['(' + est_txt(False) + ')' for _ in range(nel)]
            k = g.randint(0, nel - 2); how = g.choice([0, 1, 2])
            if how == 0: els[k] = els[k][:-1] + ' ' + est_txt(False)          # closing bracket missing, an unbracketed estimate follows
            elif how == 1: els[k] = els[k].replace('+-', '+7+-', 1)            # a stray term before the error
            else: els[k] = els[k][:-1]                                          # closing bracket missing
            text = '(' + ','.join(els) + ')'
            if how == 0: text = '(' + ','.join(els[:k + 1]) + ' ' + ','.join(els[k + 1:]) + ')' if g.random() < 0.5 else text
            cs.append(Case('o.c19.afterfail %s %s' % (kind, enc(text)), 'orc', 'container-with-one-malformed-element'))
    # round trips
    for _ in range(n):
        v, var = value(g), variance(g)
        cs.append(Case('t.rt.est %s %s %s %s' % (dhex(v), dhex(var), enc(fmt(v)), enc(fmt(math.sqrt(var)))), 'cmp', 'estimate-roundtrip', check=rt_check('est', [v, var])))
        N = g.choice([1, 2, 3, 4, 5])
        xs = [value(g) for _ in range(N)]
        cs.append(Case('t.rt.vecd %d %s %s' % (N, ' '.join(dhex(x) for x in xs), ' '.join(enc(fmt(x)) for x in xs)), 'cmp', 'vector-roundtrip', check=rt_check('num', xs)))
        xs = [value(g) for _ in range(4)]
        cs.append(Case('t.rt.stokes %s %s' % (' '.join(dhex(x) for x in xs), ' '.join(enc(fmt(x)) for x in xs)), 'cmp', 'stokes-roundtrip', check=rt_check('num', xs)))
        N = g.choice([1, 2, 3, 4])
        es = []
        for _ in range(N): es += [value(g), variance(g)]
        lex = ' '.join(enc(fmt(es[i])) + ' ' + enc(fmt(math.sqrt(es[i + 1]))) for i in range(0, 2 * N, 2))
        cs.append(Case('t.rt.vece %d %s %s' % (N, ' '.join(dhex(x) for x in es), lex), 'cmp', 'vector-of-estimates-roundtrip', check=rt_check('est', es)))
        es = []
        for _ in range(4): es += [value(g), variance(g)]
        lex = ' '.join(enc(fmt(es[i])) + ' ' + enc(fmt(math.sqrt(es[i + 1]))) for i in range(0, 8, 2))
        cs.append(Case('t.rt.stokese %s %s' % (' '.join(dhex(x) for x in es), lex), 'cmp', 'stokes-of-estimates-roundtrip', check=rt_check('est', es)))
        N = g.choice([1, 2, 3])
        zs = [value(g) for _ in range(2 * N)]
        cs.append(Case('t.rt.vecc %d %s %s' % (N, ' '.join(dhex(x) for x in zs), ' '.join(enc(fmt(x)) for x in zs)), 'cmp', 'vector-of-complex-roundtrip', check=rt_check('num', zs)))
    # output formats of the types that have no extractor
    for _ in range(max(5, n // 6)):
        xs = [value(g) for _ in range(8)]
        cs.append(Case('t.out.matrix %s %s' % (' '.join(dhex(x) for x in xs[:6]), ' '.join(enc(fmt(x)) for x in xs[:6])), 'cmp', 'output-format'))
        cs.append(Case('t.out.jones %s %s' % (' '.join(dhex(x) for x in xs), ' '.join(enc(fmt(x)) for x in xs)), 'cmp', 'output-format'))
        cs.append(Case('t.out.quath %s %s' % (' '.join(dhex(x) for x in xs[:4]), ' '.join(enc(fmt(x)) for x in xs[:4])), 'cmp', 'output-format'))
        cs.append(Case('t.out.quatu %s %s' % (' '.join(dhex(x) for x in xs[:4]), ' '.join(enc(fmt(x)) for x in xs[:4])), 'cmp', 'output-format'))
    # conventions: every enumerator out and back, every documented spelling, in every whitespace context
    for k in (0, 1, 2): cs.append(Case('t.out.basis %d' % k, 'cmp', 'convention-output'))
    for k in (-1, 1):
        cs.append(Case('t.out.hand %d' % k, 'cmp', 'convention-output')); cs.append(Case('t.out.arg %d' % k, 'cmp', 'convention-output'))
    for sp, e in SPELLINGS:
        for pre, post in (('', ''), (' ', ''), ('\n\t', ' x'), ('', '\n'), ('', ' 7')):
            for d0 in (0, 1, 2):
                cs.append(Case('t.in.basis %s %d' % (enc(pre + sp + post), d0), 'cmp', 'basis-spelling', check=spelling_check(e)))
    for sp, e in (('+1', 1), ('-1', -1), ('1', 1)):
        for pre, post in (('', ''), (' ', ''), ('\t', ' 5'), ('', '\n')):
            cs.append(Case('t.in.hand %s' % enc(pre + sp + post), 'cmp', 'hand-spelling', check=spelling_check(e)))
            cs.append(Case('t.in.arg %s' % enc(pre + sp + post), 'cmp', 'argument-spelling', check=spelling_check(e)))
    # malformed conventions
    bad = ['', ' ', 'x', 'linear', 'Lin', 'LIN', 'circular', 'ci', 'el', 'ellip', '3', '7', '-1', '10', '99', '+', '-', '.', 'lin,', '(lin)', '1x', '2.5', '0x1', '00', '01', '+2', '-0', '12', 'lin2']
    # numeric codes beyond the range of int and of long: residues 0, 1, 2 modulo 2^32 and 2^64, the limits of both types, long digit strings
    big = []
    for r_ in (0, 1, 2, 3):
        for k_ in (1, 2, 3, 2 ** 31, g.randint(1, 2 ** 31)):
            big += [str(k_ * 2 ** 32 + r_), str(-(k_ * 2 ** 32) + r_)]
        big += [str(2 ** 64 + r_), str(-(2 ** 64) + r_), str(2 ** 63 + r_), str(-(2 ** 63) - r_)]
    big += [str(2 ** 31), str(2 ** 31 - 1), str(-2 ** 31), str(-2 ** 31 - 1), str(2 ** 63 - 1), '9' * 25, '-' + '9' * 26, '1' + '0' * 30, '0' * 30 + '1', '0' * 30, '4294967296', '4294967297', '4294967298']
    for w in bad + big + [mutate(g, g.choice(SPELLINGS)[0]) for _ in range(n)]:
        for d0 in (0, 2):
            cs.append(Case('t.in.basis %s %d' % (enc(w), d0), 'cmp', 'basis-malformed', check=malformed_check('basis', 0, w, '')))
    for w in ['', ' ', '0', '2', '-2', '+', '-', 'x', '1x', '11', '+-1', '--1', '1.5', '01', '-01', '+1+1', 'one'] + [mutate(g, g.choice(['+1', '-1', '1'])) for _ in range(n // 2)]:
        cs.append(Case('t.in.hand %s' % enc(w), 'cmp', 'hand-malformed', check=malformed_check('hand', 0, w, '')))
        cs.append(Case('t.in.arg %s' % enc(w), 'cmp', 'argument-malformed', check=malformed_check('hand', 0, w, '')))
    # estimates: accepted variants and the malformed family
    fixed = ['(1+-2)', '1+-2', ' (1+-2)', '( 1+-2)', '(1+- 2)', '(1 +-2)', '(1+ -2)', '(1+-2 )', '(1+-2', '(1+-', '(1+', '(1', '(', '', ' ', '1+-', '1+-x', '1+-)', '(1+-x)',
             '1+-2)', '((1+-2))', '(1-+2)', '(1+2)', '(1,2)', '(+-2)', '(.+-2)', '(1e+-2)', '(1e5+-2e-3)', '(1e+5+-2)', '(-1+--2)', '(1+-+2)', '(1.5.2+-3)', '(1+-2e)', '1+-2e',
             '(1+-2e+)', '(0x10+-1)', '(inf+-1)', '(nan+-1)', '(1+-inf)', 'x', '+-', '(1+-2)(3+-4)', '1+-2 3+-4', '(1+-2),', '1e400+-1'[:0] + '(1+-.)', '(.5+-.25)', '(5.+-1.)', '(1E3+-1E1)']
    for w in fixed + [mutate(g, est_text(g, g.random() < 0.7)) for _ in range(3 * n)] + [mutate(g, mutate(g, est_text(g))) for _ in range(n)]:
        cs.append(Case('t.in.est %s' % enc(w), 'cmp', 'estimate-text', check=malformed_check('est', 0, w, est_sent)))
    # vectors
    vfixed = ['(1,2,3)', ' ( 1 , 2 , 3 ) ', '(1,2,3', '(1,2', '(1,', '(1', '(', '', '1,2,3)', '(1;2;3)', '(1,2;3)', '(1 2 3)', '(1,2,3]', '[1,2,3]', '(1,2,3,4)', '(1,2)', '(1,,3)', '(,2,3)', '(1,x,3)', '(x,2,3)',
              '(1,2,x)', '(1,2,3x)', '(1e,2,3)', '(1,2,3))', '((1,2,3))', '(1,2,3)x', '(-1,+2,.5)', '(1.,2e1,3E-1)', '(1,2,-)']
    for w in vfixed + [mutate(g, '(%s)' % ','.join(fmt(value(g)) for _ in range(3))) for _ in range(2 * n)]:
        cs.append(Case('t.in.vecd 3 %s' % enc(w), 'cmp', 'vector-text', check=malformed_check('vecd', 3, w, '')))
    for _ in range(n):
        N = g.choice([1, 2, 4])
        w = mutate(g, '(%s)' % ','.join(fmt(value(g)) for _ in range(N)))
        cs.append(Case('t.in.vecd %d %s' % (N, enc(w)), 'cmp', 'vector-text', check=malformed_check('vecd', N, w, '')))
    efixed = ['((1+-2),(3+-4))', '((1+-2),(3+-4)', '((1+-2)(3+-4))', '((1+-2),3+-4)', '(1+-2,3+-4)', '( (1+-2) , (3+-4) )', '((1+-2),(3+-x))', '((1+-x),(3+-4))', '((1+-2),(3-+4))',
              '((1+-2);(3+-4))', '((1+-2),)', '((1+-2)', '((1+-2),(3+-4)),', '(1+-2,3+-x)', '(1+-x,3+-4)']
    for w in efixed + [mutate(g, '(%s,%s)' % (est_text(g), est_text(g))) for _ in range(2 * n)] + [mutate(g, '(%s,%s)' % (est_text(g, False), est_text(g, False))) for _ in range(n // 2)]:
        cs.append(Case('t.in.vece 2 %s' % enc(w), 'cmp', 'vector-of-estimates-text', check=malformed_check('vece', 2, w, '')))
    cfixed = ['((1,2),(3,4))', '((1,2),(3,4)', '((1),(3,4))', '(1,(3,4))', '(1,3)', '((1,2),3)', '((1,2)(3,4))', '((1,2),(3,4,5))', '((1,2),(3;4))', '((1,2),(x,4))', '((1,2),(3,x))', '( ( 1 , 2 ) , ( 3 , 4 ) )',
              '((1,2),(3,4)))', '((1,2),', '((1,2', '((1,', '((1', '((', '((1,2),(3', '((1,2),(3,', '(x,(3,4))', '((1 2),(3,4))']
    for w in cfixed + [mutate(g, '((%s,%s),(%s,%s))' % tuple(fmt(value(g)) for _ in range(4))) for _ in range(2 * n)]:
        cs.append(Case('t.in.vecc 2 %s' % enc(w), 'cmp', 'vector-of-complex-text', check=malformed_check('vecc', 2, w, '')))
    return cs


def replay_check(vals, line):
    return None


C19 = dict(
    id='C19', module='EpsicProofs.Props.C19', gen=gen_C19, model_canon=model_canon, impl_canon=mask_eof,
    rule='std::stringstream at precision 17: doubles over the whole finite range (zero, -0, denormals, largest, exponent notation, 17-digit '
         'values) as Estimate, Vector<N,double> N=1..5, Stokes<double>, Vector<N,Estimate>, Stokes<Estimate>, Vector<N,complex> written and '
         'read back (value and standard error identical; text, parsed values, fail/eof bits and read position compared with the model); '
         'every documented spelling of Basis/Hand/Argument in five whitespace contexts; malformed families: hand-written corner cases and '
         'grammar mutations (truncate, delete, replace, insert structural characters and whitespace) of estimates, vectors, vectors of '
         'estimates and of complex numbers, with the destination pre-loaded by a sentinel; output formats of Matrix, Jones, Quaternion',
    trusted=['libstdc++ num_get / glibc strtod for the value of a number lexeme (model decides the lexeme; Python float() evaluates it)',
             "'%.17g' formatting in Python equals the stream's output at precision 17 (checked on every leaf case)"],
    assumptions=['"C" locale', 'numbers above the double range are not generated (overflow handling of num_get is not modelled)'],
    partial='the 17-significant-digit round trip of a single double is a leaf hypothesis of the theorems (validated on the implementation, not proved)',
)
SPECS = {'C19': C19}
